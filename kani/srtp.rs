// Harnesses for src/srtp.rs (C04, C05). Injected as `mod verif_kani` at the end of the file.

pub(crate) fn lit_keys() -> SessionKeys {
    SessionKeys { cipher_key: any_vec::<16>(), auth_key: any_vec::<20>(), salt: any_vec::<14>() }
}
/// A literal SrtpContext: no crypto is executed to build it. The AES key schedules are
/// zero-filled and must never be read by the function under test (profiles that would
/// read them are excluded by the harness).
pub(crate) fn lit_ctx(profile: SrtpProfile) -> SrtpContext {
    SrtpContext {
        ssrc: kani::any(), _profile: profile, rtp_keys: lit_keys(), rtcp_keys: lit_keys(),
        rtp_aes_key: unsafe { core::mem::zeroed() }, rtcp_aes_key: unsafe { core::mem::zeroed() },
        rtp_gcm_cipher: None, rtcp_gcm_cipher: None, rtp_auth_prototype: None, rtcp_auth_prototype: None,
        direction: SrtpDirection::Receiver, rollover_counter: kani::any(), last_sequence: kani::any(),
        rtcp_index: kani::any(), auth_scratch: Vec::new(), last_used: unsafe { core::mem::zeroed() },
    }
}
fn any_profile() -> SrtpProfile {
    match kani::any::<u8>() & 3 { 0 => SrtpProfile::Aes128Sha1_80, 1 => SrtpProfile::Aes128Sha1_32, 2 => SrtpProfile::AeadAes128Gcm, _ => SrtpProfile::NullCipherHmac }
}

// ---------------------------------------------------------------- C04 kernels
/// RFC 3711 3.3.1 (written from the RFC text): with s_l the highest sequence number seen and
/// ROC the local rollover counter, v = ROC+1 if SEQ - s_l < -2^15, ROC-1 if SEQ - s_l > 2^15,
/// ROC otherwise (mod 2^32); before the first packet v = ROC.
pub(crate) fn post_estimate_roc(roc: u32, last: Option<u16>, seq: u16, r: u32) -> bool {
    match last {
        None => r == roc,
        Some(l) => {
            let d = seq as i64 - l as i64;
            if d < -32768 { r == roc.wrapping_add(1) } else if d > 32768 { r == roc.wrapping_sub(1) } else { r == roc }
        }
    }
}
/// RFC 3711 3.3.1: the receiver keeps the highest index 2^16*ROC+SEQ it has authenticated.
pub(crate) fn post_update(roc0: u32, last0: Option<u16>, seq: u16, roc: u32, roc1: u32, last1: Option<u16>) -> bool {
    match last0 {
        None => last1 == Some(seq) && roc1 == roc,
        Some(l) => {
            let cur = (roc0 as u64) * 65536 + l as u64;
            let new = (roc as u64) * 65536 + seq as u64;
            if new > cur { last1 == Some(seq) && roc1 == roc } else { last1 == Some(l) && roc1 == roc0 }
        }
    }
}

#[kani::proof_for_contract(SrtpContext::estimate_roc)]
fn c04_estimate_roc_contract() {
    let mut c = lit_ctx(any_profile());
    let old = (c.rollover_counter, c.last_sequence, c.rtcp_index);
    let seq: u16 = kani::any();
    let r = c.estimate_roc(seq);
    // same predicates as the in-place contract; lets a counterexample be replayed natively
    assert!(post_estimate_roc(old.0, old.1, seq, r));
    // frame: estimating must not touch the receiver state (it runs BEFORE authentication)
    assert!((c.rollover_counter, c.last_sequence, c.rtcp_index) == old);
}

#[kani::proof_for_contract(SrtpContext::update)]
fn c04_update_contract() {
    let mut c = lit_ctx(any_profile());
    let (roc0, last0) = (c.rollover_counter, c.last_sequence);
    let (seq, roc): (u16, u32) = (kani::any(), kani::any());
    c.update(seq, roc);
    assert!(post_update(roc0, last0, seq, roc, c.rollover_counter, c.last_sequence));
}

/// canary: a false claim about estimate_roc must FAIL (vacuity / pipeline self-check)
#[kani::proof]
fn canary_estimate_roc_always_roc() {
    let mut c = lit_ctx(SrtpProfile::Aes128Sha1_80);
    let r = c.estimate_roc(kani::any());
    assert!(r == c.rollover_counter);
}

/// RFC 3711 3.3.1, one step of a history: the receiver holds index h = roc*2^16 + s_l (the
/// highest accepted), a genuine packet with sender index i arrives, |i - h| < 2^15.
/// Then estimate_roc(i mod 2^16) == i div 2^16 and update() leaves max(h, i).
#[kani::proof]
fn c04_index_step() {
    let mut c = lit_ctx(any_profile());
    let l: u16 = kani::any();
    c.last_sequence = Some(l);
    let h: u64 = ((c.rollover_counter as u64) << 16) | l as u64;
    let i: u64 = kani::any();
    kani::assume(i < (1u64 << 48));
    let d = i as i64 - h as i64;
    kani::assume(d > -32768 && d < 32768);
    kani::cover!(d < 0 && (i >> 16) != (h >> 16));
    kani::cover!(d > 0 && (i >> 16) != (h >> 16));
    let v = c.estimate_roc(i as u16);
    assert!(v as u64 == i >> 16);
    c.update(i as u16, v);
    let h2 = ((c.rollover_counter as u64) << 16) | c.last_sequence.unwrap() as u64;
    assert!(h2 == if i > h { i } else { h });
}

// spec functions written from RFC 3711 4.1.1 / RFC 7714 8.1, 9.1 (not from the code)
pub(crate) fn spec_iv_aes_cm(salt: &[u8], ssrc: u32, roc: u32, seq: u16) -> [u8; 16] {
    // IV = (k_s * 2^16) XOR (SSRC * 2^64) XOR (i * 2^16), k_s 112 bits, i = 2^16*ROC + SEQ
    let mut ks: u128 = 0;
    let mut j = 0;
    while j < 14 { ks = (ks << 8) | salt[j] as u128; j += 1; }
    let i: u128 = ((roc as u128) << 16) | seq as u128;
    let iv = (ks << 16) ^ ((ssrc as u128) << 64) ^ (i << 16);
    iv.to_be_bytes()
}
pub(crate) fn spec_iv_gcm_rtp(salt: &[u8], ssrc: u32, roc: u32, seq: u16) -> [u8; 12] {
    // 00 00 || SSRC || ROC || SEQ, XOR 96-bit salt
    let s = ssrc.to_be_bytes(); let r = roc.to_be_bytes(); let q = seq.to_be_bytes();
    let b = [0, 0, s[0], s[1], s[2], s[3], r[0], r[1], r[2], r[3], q[0], q[1]];
    let mut o = [0u8; 12]; let mut j = 0; while j < 12 { o[j] = b[j] ^ salt[j]; j += 1; } o
}
pub(crate) fn spec_iv_gcm_rtcp(salt: &[u8], ssrc: u32, index: u32) -> [u8; 12] {
    // 00 00 || SSRC || 00 00 || (0 || 31-bit SRTCP index), XOR 96-bit salt
    let s = ssrc.to_be_bytes(); let x = index.to_be_bytes();
    let b = [0, 0, s[0], s[1], s[2], s[3], 0, 0, x[0], x[1], x[2], x[3]];
    let mut o = [0u8; 12]; let mut j = 0; while j < 12 { o[j] = b[j] ^ salt[j]; j += 1; } o
}

#[kani::proof]
#[kani::unwind(18)]
fn c04_build_iv_spec() {
    let mut c = lit_ctx(any_profile());
    let (seq, roc): (u16, u32) = (kani::any(), kani::any());
    assert!(c.build_iv(seq, roc) == spec_iv_aes_cm(&c.rtp_keys.salt, c.ssrc, roc, seq));
}
#[kani::proof]
#[kani::unwind(18)]
fn c04_build_gcm_nonce_spec() {
    let mut c = lit_ctx(any_profile());
    let (seq, roc): (u16, u32) = (kani::any(), kani::any());
    assert!(c.build_gcm_nonce(seq, roc) == spec_iv_gcm_rtp(&c.rtp_keys.salt, c.ssrc, roc, seq));
}
#[kani::proof]
#[kani::unwind(18)]
fn c04_build_gcm_rtcp_nonce_spec() {
    let mut c = lit_ctx(any_profile());
    let index: u32 = kani::any();
    assert!(c.build_gcm_rtcp_nonce(index) == spec_iv_gcm_rtcp(&c.rtcp_keys.salt, c.ssrc, index));
}
/// corollary used by "no two packets of a session share an IV": for a fixed salt the IV is
/// injective in (ssrc, roc, seq) — checked on the real functions, not on the spec.
#[kani::proof]
#[kani::unwind(18)]
fn c04_iv_injective() {
    let mut c = lit_ctx(any_profile());
    let (s1, r1, q1): (u32, u32, u16) = (kani::any(), kani::any(), kani::any());
    let (s2, r2, q2): (u32, u32, u16) = (kani::any(), kani::any(), kani::any());
    c.ssrc = s1; let a = c.build_iv(q1, r1); let g = c.build_gcm_nonce(q1, r1);
    c.ssrc = s2; let b = c.build_iv(q2, r2); let h = c.build_gcm_nonce(q2, r2);
    if a == b { assert!(s1 == s2 && r1 == r2 && q1 == q2); }
    if g == h { assert!(s1 == s2 && r1 == r2 && q1 == q2); }
}
/// RFC 3711 8.2 / RFC 7714 14.2 parameter table
#[kani::proof]
fn c04_profile_table() {
    let p = any_profile();
    let (t, s, k, a) = (p.tag_len(), p.salt_len(), p.key_len(), p.auth_key_len());
    match p {
        SrtpProfile::Aes128Sha1_80 => assert!(t == 10 && s == 14 && k == 16 && a == 20),
        SrtpProfile::Aes128Sha1_32 => assert!(t == 4 && s == 14 && k == 16 && a == 20),
        SrtpProfile::NullCipherHmac => assert!(t == 10 && s == 14 && k == 16 && a == 20),
        SrtpProfile::AeadAes128Gcm => assert!(t == 16 && s == 12 && k == 16 && a == 0),
    }
}

// ================================================================ C05
/// well_formed(ctx): the authentication material every contract below requires. Without it
/// `unprotect` would silently skip authentication (`if let Some(proto)`).
pub(crate) fn well_formed(c: &SrtpContext) -> bool {
    match c._profile {
        SrtpProfile::AeadAes128Gcm => c.rtp_gcm_cipher.is_some() && c.rtcp_gcm_cipher.is_some()
            && c.rtp_keys.salt.len() >= 12 && c.rtcp_keys.salt.len() >= 12,
        _ => c.rtp_auth_prototype.is_some() && c.rtcp_auth_prototype.is_some()
            && c.rtp_keys.salt.len() >= 14 && c.rtcp_keys.salt.len() >= 14,
    }
}
fn ctx_hmac(profile: SrtpProfile, ak_rtp: &[u8], ak_rtcp: &[u8]) -> SrtpContext {
    let mut c = lit_ctx(profile);
    c.rtp_auth_prototype = Some(<HmacSha1 as hmac::digest::KeyInit>::new_from_slice(ak_rtp).unwrap());
    c.rtcp_auth_prototype = Some(<HmacSha1 as hmac::digest::KeyInit>::new_from_slice(ak_rtcp).unwrap());
    c
}
fn ctx_gcm(k_rtp: &[u8; 16], k_rtcp: &[u8; 16]) -> SrtpContext {
    let mut c = lit_ctx(SrtpProfile::AeadAes128Gcm);
    c.rtp_gcm_cipher = Some(Aes128Gcm::new_from_slice(k_rtp).unwrap());
    c.rtcp_gcm_cipher = Some(Aes128Gcm::new_from_slice(k_rtcp).unwrap());
    c
}
type CryptoState = (u32, Option<u16>, u32);
fn crypto_state(c: &SrtpContext) -> CryptoState { (c.rollover_counter, c.last_sequence, c.rtcp_index) }

/// constant_time_eq(a, b) == (a == b) for every pair of slices up to SHA1_LEN bytes
#[kani::proof]
#[kani::unwind(22)]
fn c05_constant_time_eq_spec() {
    let a: [u8; 20] = kani::any();
    let b: [u8; 20] = kani::any();
    let (la, lb): (usize, usize) = (kani::any(), kani::any());
    kani::assume(la <= 20 && lb <= 20);
    kani::cover!(la == lb && la == 20 && a == b);
    kani::cover!(la == lb && la == 10 && a[..10] == b[..10] && a != b);
    assert!(constant_time_eq(&a[..la], &b[..lb]) == (a[..la] == b[..lb]));
}

// ---- SRTCP, HMAC profiles: Err => crypto state unchanged; Ok => tag is the MAC of ALL preceding bytes
fn srtcp_hmac_obligation<const N: usize>(profile: SrtpProfile, ak: [u8; 20]) {
    let mut c = ctx_cm(profile, &ak, [0x11; 16]);
    kani::assume(well_formed(&c));
    // RFC 3711 / RFC 5764 4.1.2: the SRTCP tag is 80 bits under EVERY HMAC-SHA1 profile (also _32)
    let tag_len = 10;
    let old = crypto_state(&c);
    let raw: [u8; N] = kani::any();
    let mut p = raw.to_vec();
    let r = c.unprotect_rtcp(&mut p);
    match r {
        Err(_) => assert!(crypto_state(&c) == old),
        Ok(()) => {
            // recompute the MAC with the public API over every byte before the tag (incl. the index word)
            let mut mac = <HmacSha1 as hmac::digest::KeyInit>::new_from_slice(&ak).unwrap();
            mac.update(&raw[..N - tag_len]);
            let t = mac.finalize().into_bytes();
            assert!(t[..tag_len] == raw[N - tag_len..]);
            assert!(p.len() == N - tag_len - 4);
            // only the SRTCP index may move, and only to the authenticated value
            let idx = u32::from_be_bytes([raw[N - tag_len - 4], raw[N - tag_len - 3], raw[N - tag_len - 2], raw[N - tag_len - 1]]) & 0x7FFF_FFFF;
            assert!(c.rollover_counter == old.0 && c.last_sequence == old.1);
            assert!(c.rtcp_index == if idx > old.2 { idx } else { old.2 });
            kani::cover!(true);
        }
    }
}
#[kani::proof]
#[kani::unwind(30)]
fn c05_unprotect_rtcp_hmac80_22_fixedkey() {
    srtcp_hmac_obligation::<22>(SrtpProfile::NullCipherHmac, [0x5a; 20]);
}
#[kani::proof]
#[kani::unwind(30)]
fn c05_unprotect_rtcp_sha32_22_fixedkey() {
    srtcp_hmac_obligation::<22>(SrtpProfile::Aes128Sha1_32, [0x5a; 20]);
}
#[kani::proof]
#[kani::unwind(30)]
fn c05_unprotect_rtcp_sha80_22_fixedkey() {
    srtcp_hmac_obligation::<22>(SrtpProfile::Aes128Sha1_80, [0x5a; 20]);
}
#[kani::proof]
#[kani::unwind(30)]
fn c05_unprotect_rtcp_hmac80_26_anykey() {
    srtcp_hmac_obligation::<26>(SrtpProfile::NullCipherHmac, kani::any());
}
/// every input too short to hold index+tag is rejected without touching state;
/// one harness per (profile, concrete length): symbolic lengths/profiles explode CBMC's memory
fn srtcp_short_obligation<const N: usize>(p: SrtpProfile) {
    assert!(N < p.tag_len() + 4);
    let mut c = lit_ctx(p);
    let old = crypto_state(&c);
    let raw: [u8; N] = kani::any();
    let mut v = raw.to_vec();
    assert!(matches!(c.unprotect_rtcp(&mut v), Err(SrtpError::PacketTooShort)));
    assert!(crypto_state(&c) == old);
}
#[kani::proof]
#[kani::unwind(24)]
fn c05_unprotect_rtcp_short_null_0() { srtcp_short_obligation::<0>(SrtpProfile::NullCipherHmac); }
#[kani::proof]
#[kani::unwind(24)]
fn c05_unprotect_rtcp_short_sha32_7() { srtcp_short_obligation::<7>(SrtpProfile::Aes128Sha1_32); }
#[kani::proof]
#[kani::unwind(24)]
fn c05_unprotect_rtcp_short_sha80_13() { srtcp_short_obligation::<13>(SrtpProfile::Aes128Sha1_80); }
#[kani::proof]
#[kani::unwind(24)]
fn c05_unprotect_rtcp_short_gcm_19() { srtcp_short_obligation::<19>(SrtpProfile::AeadAes128Gcm); }

// ---- SRTCP, GCM: Err => crypto state unchanged (index only advances on an authenticated packet)
fn srtcp_gcm_obligation<const N: usize>() {
    let key: [u8; 16] = [7; 16];
    let mut c = ctx_gcm(&key, &key);
    kani::assume(well_formed(&c));
    let old = crypto_state(&c);
    let raw: [u8; N] = kani::any();
    let mut p = raw.to_vec();
    let r = c.unprotect_rtcp(&mut p);
    match r {
        Err(_) => assert!(crypto_state(&c) == old),
        Ok(()) => {
            // authenticated under AAD = header(8) || index word, nonce = RFC 7714 9.1
            let iw = [raw[N - 4], raw[N - 3], raw[N - 2], raw[N - 1]];
            let idx = u32::from_be_bytes(iw) & 0x7FFF_FFFF;
            let mut aad = raw[..8].to_vec();
            aad.extend_from_slice(&iw);
            let nonce = spec_iv_gcm_rtcp(&c.rtcp_keys.salt, c.ssrc, idx);
            let ciph = Aes128Gcm::new_from_slice(&key).unwrap();
            let mut ct = raw[8..N - 20].to_vec();
            let tag = aes_gcm::Tag::clone_from_slice(&raw[N - 20..N - 4]);
            assert!(ciph.decrypt_in_place_detached(Nonce::from_slice(&nonce), &aad, &mut ct, &tag).is_ok());
            assert!(p.len() == N - 20 && p[..8] == raw[..8] && p[8..] == ct[..]);
            assert!(c.rollover_counter == old.0 && c.last_sequence == old.1);
            assert!(c.rtcp_index == if idx > old.2 { idx } else { old.2 });
            kani::cover!(true);
        }
    }
}
#[kani::proof]
#[kani::unwind(40)]
fn c05_unprotect_rtcp_gcm_32() {
    srtcp_gcm_obligation::<32>();
}
#[kani::proof]
#[kani::unwind(40)]
fn c05_unprotect_rtcp_gcm_28() {
    srtcp_gcm_obligation::<28>();
}

// ---- SRTP (RTP), HMAC profiles
fn srtp_hmac_obligation<const B: usize>(profile: SrtpProfile, ak: [u8; 20]) {
    let mut c = ctx_hmac(profile, &ak, &ak);
    kani::assume(well_formed(&c));
    let tag_len = profile.tag_len();
    let old = crypto_state(&c);
    let body: [u8; B] = kani::any();
    let mut h = RtpHeader::new(kani::any::<u8>() & 0x7f, kani::any(), kani::any(), kani::any());
    h.marker = kani::any();
    let seq = h.sequence_number;
    let mut hdr = [0u8; 12];
    h.write_to(false, &mut hdr[..]);
    let sp = SrtpPacket { header: h, body: BytesMut::from(&body[..]), has_padding: false };
    let roc = post_estimate_roc_value(old.0, old.1, seq);
    let r = c.unprotect(sp);
    match r {
        Err(_) => assert!(crypto_state(&c) == old),
        Ok(pkt) => {
            let mut mac = <HmacSha1 as hmac::digest::KeyInit>::new_from_slice(&ak).unwrap();
            mac.update(&hdr);
            mac.update(&body[..B - tag_len]);
            mac.update(&roc.to_be_bytes());
            let t = mac.finalize().into_bytes();
            assert!(t[..tag_len] == body[B - tag_len..]);
            assert!(pkt.payload.len() == B - tag_len && pkt.padding_len == 0);
            assert!(pkt.header.sequence_number == seq);
            assert!(post_update(old.0, old.1, seq, roc, c.rollover_counter, c.last_sequence) && c.rtcp_index == old.2);
            kani::cover!(true);
            core::mem::forget(pkt);
        }
    }
}
/// the value post_estimate_roc determines (RFC 3711 3.3.1), used to state "MAC covers the ROC"
pub(crate) fn post_estimate_roc_value(roc: u32, last: Option<u16>, seq: u16) -> u32 {
    match last {
        None => roc,
        Some(l) => { let d = seq as i64 - l as i64; if d < -32768 { roc.wrapping_add(1) } else if d > 32768 { roc.wrapping_sub(1) } else { roc } }
    }
}
#[kani::proof]
#[kani::unwind(30)]
fn c05_unprotect_hmac80_body10_fixedkey() {
    srtp_hmac_obligation::<10>(SrtpProfile::NullCipherHmac, [0x5a; 20]);
}
#[kani::proof]
#[kani::unwind(30)]
fn c05_unprotect_hmac80_body14_anykey() {
    srtp_hmac_obligation::<14>(SrtpProfile::NullCipherHmac, kani::any());
}
/// a body shorter than the tag is rejected without touching state, per (profile, concrete length)
fn srtp_short_obligation<const N: usize>(p: SrtpProfile) {
    assert!(N < p.tag_len());
    let mut c = lit_ctx(p);
    let old = crypto_state(&c);
    let body: [u8; N] = kani::any();
    let h = RtpHeader::new(96, kani::any(), kani::any(), kani::any());
    let sp = SrtpPacket { header: h, body: BytesMut::from(&body[..]), has_padding: kani::any() };
    assert!(matches!(c.unprotect(sp), Err(SrtpError::PacketTooShort)));
    assert!(crypto_state(&c) == old);
}
#[kani::proof]
#[kani::unwind(20)]
fn c05_unprotect_short_null_0() { srtp_short_obligation::<0>(SrtpProfile::NullCipherHmac); }
#[kani::proof]
#[kani::unwind(20)]
fn c05_unprotect_short_sha32_3() { srtp_short_obligation::<3>(SrtpProfile::Aes128Sha1_32); }
#[kani::proof]
#[kani::unwind(20)]
fn c05_unprotect_short_sha80_9() { srtp_short_obligation::<9>(SrtpProfile::Aes128Sha1_80); }
#[kani::proof]
#[kani::unwind(20)]
fn c05_unprotect_short_gcm_15() { srtp_short_obligation::<15>(SrtpProfile::AeadAes128Gcm); }

// ---- SRTP (RTP), GCM
fn srtp_gcm_obligation<const B: usize>() {
    let key: [u8; 16] = [7; 16];
    let mut c = ctx_gcm(&key, &key);
    kani::assume(well_formed(&c));
    let old = crypto_state(&c);
    let body: [u8; B] = kani::any();
    let mut h = RtpHeader::new(kani::any::<u8>() & 0x7f, kani::any(), kani::any(), kani::any());
    h.marker = kani::any();
    let seq = h.sequence_number;
    let mut hdr = [0u8; 12];
    h.write_to(false, &mut hdr[..]);
    let sp = SrtpPacket { header: h, body: BytesMut::from(&body[..]), has_padding: false };
    let roc = post_estimate_roc_value(old.0, old.1, seq);
    let r = c.unprotect(sp);
    match r {
        Err(_) => assert!(crypto_state(&c) == old),
        Ok(pkt) => {
            let nonce = spec_iv_gcm_rtp(&c.rtp_keys.salt, c.ssrc, roc, seq);
            let ciph = Aes128Gcm::new_from_slice(&key).unwrap();
            let mut ct = body[..B - 16].to_vec();
            let tag = aes_gcm::Tag::clone_from_slice(&body[B - 16..]);
            assert!(ciph.decrypt_in_place_detached(Nonce::from_slice(&nonce), &hdr, &mut ct, &tag).is_ok());
            assert!(pkt.payload[..] == ct[..]);
            assert!(post_update(old.0, old.1, seq, roc, c.rollover_counter, c.last_sequence) && c.rtcp_index == old.2);
            kani::cover!(true);
            core::mem::forget(pkt);
        }
    }
}
#[kani::proof]
#[kani::unwind(40)]
fn c05_unprotect_gcm_body18() {
    srtp_gcm_obligation::<18>();
}

// ================================================================ C04/C05: construction + cipher profiles
// (need the `aes`/`ctr` substitutes: SrtpContext::new runs the AES-CM key derivation)
fn keying() -> SrtpKeyingMaterial { SrtpKeyingMaterial::new(any_vec::<16>(), any_vec::<14>()) }

/// SrtpContext::new: Ok(c) => well_formed(c) (authentication material present for the profile —
/// otherwise unprotect would silently skip the tag check), fresh index state, key lengths per profile
fn new_obligation(p: SrtpProfile) {
    let ssrc: u32 = kani::any();
    let r = SrtpContext::new(ssrc, p, keying(), SrtpDirection::Receiver);
    let c = r.unwrap();
    assert!(well_formed(&c));
    assert!(c.ssrc == ssrc && c._profile == p && c.rollover_counter == 0 && c.last_sequence.is_none() && c.rtcp_index == 0);
    assert!(c.rtp_keys.cipher_key.len() == 16 && c.rtcp_keys.cipher_key.len() == 16);
    assert!(c.rtp_keys.salt.len() == p.salt_len() && c.rtcp_keys.salt.len() == p.salt_len());
    assert!(c.rtp_keys.auth_key.len() == p.auth_key_len() && c.rtcp_keys.auth_key.len() == p.auth_key_len());
    core::mem::forget(c);
}
#[kani::proof]
#[kani::unwind(70)]
#[kani::stub(std::time::Instant::now, st_instant_now)]
fn c05_new_well_formed_sha80() { new_obligation(SrtpProfile::Aes128Sha1_80); }
#[kani::proof]
#[kani::unwind(70)]
#[kani::stub(std::time::Instant::now, st_instant_now)]
fn c05_new_well_formed_sha32() { new_obligation(SrtpProfile::Aes128Sha1_32); }
#[kani::proof]
#[kani::unwind(70)]
#[kani::stub(std::time::Instant::now, st_instant_now)]
fn c05_new_well_formed_null() { new_obligation(SrtpProfile::NullCipherHmac); }
#[kani::proof]
#[kani::unwind(70)]
#[kani::stub(std::time::Instant::now, st_instant_now)]
fn c05_new_well_formed_gcm() { new_obligation(SrtpProfile::AeadAes128Gcm); }
/// short master key / salt is rejected (no panic in the slice copies of new/kdf)
#[kani::proof]
#[kani::unwind(70)]
#[kani::stub(std::time::Instant::now, st_instant_now)]
fn c05_new_rejects_short_keying() {
    let k = SrtpKeyingMaterial::new(any_vec::<15>(), any_vec::<14>());
    assert!(SrtpContext::new(1, SrtpProfile::Aes128Sha1_80, k, SrtpDirection::Sender).is_err());
    let k = SrtpKeyingMaterial::new(any_vec::<16>(), any_vec::<13>());
    assert!(SrtpContext::new(1, SrtpProfile::Aes128Sha1_80, k, SrtpDirection::Sender).is_err());
    let k = SrtpKeyingMaterial::new(any_vec::<16>(), any_vec::<11>());
    assert!(SrtpContext::new(1, SrtpProfile::AeadAes128Gcm, k, SrtpDirection::Sender).is_err());
}

fn ctx_cm(profile: SrtpProfile, ak: &[u8], ck: [u8; 16]) -> SrtpContext {
    let mut c = ctx_hmac(profile, ak, ak);
    c.rtp_aes_key = <Aes128 as ctr::cipher::KeyInit>::new(&ck.into());
    c.rtcp_aes_key = <Aes128 as ctr::cipher::KeyInit>::new(&ck.into());
    c
}

/// protect: output == header image || body (ciphered for AES-CM, clear for NULL) || MAC(header||body||ROC)[..tag]
/// length == protected_rtp_len, padding bytes == padding_len, P bit set iff padding, state advanced per post_update
fn protect_layout_obligation<const PL: usize, const PAD: u8>(profile: SrtpProfile) {
    let ak = [0x5au8; 20];
    let mut c = ctx_cm(profile, &ak, [0x11; 16]);
    c.direction = SrtpDirection::Sender;
    kani::assume(well_formed(&c));
    let tag_len = profile.tag_len();
    let old = crypto_state(&c);
    let pl: [u8; PL] = kani::any();
    let mut h = RtpHeader::new(kani::any::<u8>() & 0x7f, kani::any(), kani::any(), kani::any());
    h.marker = kani::any();
    let seq = h.sequence_number;
    let pkt = RtpPacket { header: h, payload: static_bytes_of(pl), padding_len: PAD };
    let n = c.protected_rtp_len(&pkt);
    assert!(n == 12 + PL + PAD as usize + tag_len);
    let mut out = vec![0u8; n];
    c.protect(&pkt, &mut out).unwrap();
    let roc = post_estimate_roc_value(old.0, old.1, seq);
    // header image
    let mut hdr = [0u8; 12];
    pkt.header.write_to(PAD != 0, &mut hdr[..]);
    assert!(out[..12] == hdr[..]);
    // body: payload || padding, through the keystream for AES-CM
    let mut body = [0u8; 64];
    body[..PL].copy_from_slice(&pl);
    let mut i = PL; while i < PL + PAD as usize { body[i] = PAD; i += 1; }
    let bl = PL + PAD as usize;
    if !matches!(profile, SrtpProfile::NullCipherHmac) && bl != 0 {
        let iv = spec_iv_aes_cm(&c.rtp_keys.salt, c.ssrc, roc, seq);
        let mut ks = <Aes128Ctr as ctr::cipher::KeyIvInit>::new_from_slices(&[0x11; 16], &iv).unwrap();
        ks.apply_keystream(&mut body[..bl]);
    }
    assert!(out[12..12 + bl] == body[..bl]);
    // tag = MAC over everything before it, then the ROC
    let mut mac = <HmacSha1 as hmac::digest::KeyInit>::new_from_slice(&ak).unwrap();
    mac.update(&out[..12 + bl]);
    mac.update(&roc.to_be_bytes());
    let t = mac.finalize().into_bytes();
    assert!(out[12 + bl..] == t[..tag_len]);
    assert!(post_update(old.0, old.1, seq, roc, c.rollover_counter, c.last_sequence) && c.rtcp_index == old.2);
    core::mem::forget(pkt);
}
#[kani::proof]
#[kani::unwind(30)]
fn c04_protect_layout_null_p4() { protect_layout_obligation::<4, 0>(SrtpProfile::NullCipherHmac); }
#[kani::proof]
#[kani::unwind(30)]
fn c04_protect_layout_sha80_p4_pad2() { protect_layout_obligation::<4, 2>(SrtpProfile::Aes128Sha1_80); }
#[kani::proof]
#[kani::unwind(30)]
fn c04_protect_layout_sha32_p0() { protect_layout_obligation::<0, 0>(SrtpProfile::Aes128Sha1_32); }

/// composed round trip on two contexts holding the same keys: protect into a slice, re-wrap the
/// output as an SrtpPacket (header as parsed, body = the rest), unprotect: header fields, payload
/// and padding come back unchanged and both contexts end in the same (roc, last_sequence)
fn roundtrip_obligation<const PL: usize, const PAD: u8, const N: usize>(profile: SrtpProfile) {
    let ak = [0x5au8; 20];
    let mut tx = ctx_cm(profile, &ak, [0x11; 16]);
    let mut rx = ctx_cm(profile, &ak, [0x11; 16]);
    rx.ssrc = tx.ssrc; rx.rtp_keys.salt = tx.rtp_keys.salt.clone();
    rx.rollover_counter = tx.rollover_counter; rx.last_sequence = tx.last_sequence;
    kani::assume(well_formed(&tx) && well_formed(&rx));
    let pl: [u8; PL] = kani::any();
    let mut h = RtpHeader::new(kani::any::<u8>() & 0x7f, kani::any(), kani::any(), kani::any());
    h.marker = kani::any();
    let pkt = RtpPacket { header: h.clone(), payload: static_bytes_of(pl), padding_len: PAD };
    let mut out = [0u8; N];
    assert!(tx.protected_rtp_len(&pkt) == N);
    tx.protect(&pkt, &mut out[..]).unwrap();
    let sp = SrtpPacket { header: h, body: BytesMut::from(&out[12..]), has_padding: PAD != 0 };
    let got = rx.unprotect(sp).unwrap();
    assert!(got.header == pkt.header && got.payload[..] == pl[..] && got.padding_len == PAD);
    assert!(rx.rollover_counter == tx.rollover_counter && rx.last_sequence == tx.last_sequence);
    core::mem::forget(got); core::mem::forget(pkt);
}
#[kani::proof]
#[kani::unwind(30)]
fn c04_roundtrip_null_p2() { roundtrip_obligation::<2, 0, 24>(SrtpProfile::NullCipherHmac); }
#[kani::proof]
#[kani::unwind(30)]
fn c04_roundtrip_sha80_p2_pad2() { roundtrip_obligation::<2, 2, 26>(SrtpProfile::Aes128Sha1_80); }

/// SRTCP: protect_rtcp then unprotect_rtcp is the identity; E bit set; index appended big-endian
/// right before the tag and incremented per packet
fn rtcp_roundtrip_obligation<const N: usize>(profile: SrtpProfile) {
    let ak = [0x5au8; 20];
    let mut tx = ctx_cm(profile, &ak, [0x11; 16]);
    let mut rx = ctx_cm(profile, &ak, [0x11; 16]);
    rx.ssrc = tx.ssrc; rx.rtcp_keys.salt = tx.rtcp_keys.salt.clone();
    kani::assume(tx.rtcp_index < 0x7FFF_FFFE);
    let i0 = tx.rtcp_index;
    let raw: [u8; N] = kani::any();
    let mut p = raw.to_vec();
    tx.protect_rtcp(&mut p).unwrap();
    let tl = profile.tag_len();
    assert!(p.len() == N + 4 + tl && p[..8] == raw[..8]);
    // E bit set, 31-bit index is this packet's index (RFC 3711 lets the counter be bumped before or
    // after use), and the sender's counter moved by exactly one
    let w = u32::from_be_bytes([p[N], p[N + 1], p[N + 2], p[N + 3]]);
    assert!(w & 0x8000_0000 != 0 && ((w & 0x7FFF_FFFF) == i0 + 1 || (w & 0x7FFF_FFFF) == i0) && tx.rtcp_index == i0 + 1);
    rx.unprotect_rtcp(&mut p).unwrap();
    assert!(p[..] == raw[..]);
}
#[kani::proof]
#[kani::unwind(30)]
fn c04_rtcp_roundtrip_null_12() { rtcp_roundtrip_obligation::<12>(SrtpProfile::NullCipherHmac); }
#[kani::proof]
#[kani::unwind(30)]
fn c04_rtcp_roundtrip_sha80_12() { rtcp_roundtrip_obligation::<12>(SrtpProfile::Aes128Sha1_80); }

// recording stub: which IV does cipher_rtcp hand to the cipher?
static mut RTCP_IV: [u8; 16] = [0; 16];
fn rec_ctr_from_key(key: &Aes128, iv: [u8; 16]) -> Aes128Ctr {
    unsafe { RTCP_IV = iv; }
    let core = <ctr::CtrCore<Aes128, ctr::flavors::Ctr128BE> as InnerIvInit>::inner_iv_init(key.clone(), &iv.into());
    Aes128Ctr::from_core(core)
}
/// cipher_rtcp: IV == (k_s*2^16) xor (SSRC*2^64) xor (index*2^16) (RFC 3711 4.1.1 with the SRTCP index), first 8 bytes untouched
#[kani::proof]
#[kani::unwind(24)]
#[kani::stub(SrtpContext::ctr_from_key, rec_ctr_from_key)]
fn c04_cipher_rtcp_iv_spec() {
    let c = ctx_cm(SrtpProfile::Aes128Sha1_80, &[0x5a; 20], [0x11; 16]);
    let index: u32 = kani::any();
    let raw: [u8; 12] = kani::any();
    let mut p = raw;
    c.cipher_rtcp(&mut p[..], index);
    let mut ks: u128 = 0; let mut j = 0; while j < 14 { ks = (ks << 8) | c.rtcp_keys.salt[j] as u128; j += 1; }
    let want = ((ks << 16) ^ ((c.ssrc as u128) << 64) ^ ((index as u128) << 16)).to_be_bytes();
    unsafe { assert!(RTCP_IV == want); }
    assert!(p[..8] == raw[..8]);
}

// ---- GCM profile: protect layout + round trip (aes-gcm substitute)
/// protect (AEAD_AES_128_GCM): output == header image || AEAD-seal(body) with AAD = header image,
/// nonce = RFC 7714 8.1 (seq, estimated roc); unprotect on a second context returns the packet
fn gcm_roundtrip_obligation<const PL: usize, const N: usize>() {
    let key = [7u8; 16];
    let mut tx = ctx_gcm(&key, &key);
    let mut rx = ctx_gcm(&key, &key);
    rx.ssrc = tx.ssrc; rx.rtp_keys.salt = tx.rtp_keys.salt.clone();
    rx.rollover_counter = tx.rollover_counter; rx.last_sequence = tx.last_sequence;
    kani::assume(well_formed(&tx) && well_formed(&rx));
    let old = crypto_state(&tx);
    let pl: [u8; PL] = kani::any();
    let mut h = RtpHeader::new(kani::any::<u8>() & 0x7f, kani::any(), kani::any(), kani::any());
    h.marker = kani::any();
    let seq = h.sequence_number;
    let pkt = RtpPacket { header: h.clone(), payload: static_bytes_of(pl), padding_len: 0 };
    let mut out = [0u8; N];
    assert!(tx.protected_rtp_len(&pkt) == N && N == 12 + PL + 16);
    tx.protect(&pkt, &mut out[..]).unwrap();
    // layout: header image, then seal(payload) under the RFC nonce with the header as AAD
    let roc = post_estimate_roc_value(old.0, old.1, seq);
    let mut hdr = [0u8; 12];
    pkt.header.write_to(false, &mut hdr[..]);
    assert!(out[..12] == hdr[..]);
    let nonce = spec_iv_gcm_rtp(&tx.rtp_keys.salt, tx.ssrc, roc, seq);
    let ciph = Aes128Gcm::new_from_slice(&key).unwrap();
    let mut body = pl;
    let tag = ciph.encrypt_in_place_detached(Nonce::from_slice(&nonce), &hdr, &mut body[..]).unwrap();
    assert!(out[12..12 + PL] == body[..] && out[12 + PL..] == tag[..]);
    let sp = SrtpPacket { header: h, body: BytesMut::from(&out[12..]), has_padding: false };
    let got = rx.unprotect(sp).unwrap();
    assert!(got.header == pkt.header && got.payload[..] == pl[..] && got.padding_len == 0);
    assert!(rx.rollover_counter == tx.rollover_counter && rx.last_sequence == tx.last_sequence);
    core::mem::forget(got); core::mem::forget(pkt);
}
#[kani::proof]
#[kani::unwind(30)]
fn c04_gcm_protect_layout_and_roundtrip_p2() { gcm_roundtrip_obligation::<2, 30>(); }

/// SRTCP GCM: protect_rtcp then unprotect_rtcp is the identity; index word (E bit set) is the trailer
#[kani::proof]
#[kani::unwind(30)]
fn c04_rtcp_gcm_roundtrip_12() {
    let key = [7u8; 16];
    let mut tx = ctx_gcm(&key, &key);
    let mut rx = ctx_gcm(&key, &key);
    rx.ssrc = tx.ssrc; rx.rtcp_keys.salt = tx.rtcp_keys.salt.clone();
    kani::assume(tx.rtcp_index < 0x7FFF_FFFE);
    let i0 = tx.rtcp_index;
    let raw: [u8; 12] = kani::any();
    let mut p = raw.to_vec();
    tx.protect_rtcp(&mut p).unwrap();
    assert!(p.len() == 12 + 16 + 4 && p[..8] == raw[..8]);
    let w = u32::from_be_bytes([p[28], p[29], p[30], p[31]]);
    assert!(w & 0x8000_0000 != 0 && ((w & 0x7FFF_FFFF) == i0 + 1 || (w & 0x7FFF_FFFF) == i0) && tx.rtcp_index == i0 + 1);
    rx.unprotect_rtcp(&mut p).unwrap();
    assert!(p[..] == raw[..]);
}


/// RFC 5764 4.1.2 (and RFC 3711 3.4 / libsrtp / webrtc-srtp): SRTP_AES128_CM_HMAC_SHA1_32 shortens
/// the SRTP tag to 32 bits but keeps the 80-bit tag for SRTCP ("RTCP auth_tag_length: 80").
/// protect_rtcp must therefore append index(4) + 10 tag bytes under every HMAC-SHA1 profile.
fn rtcp_tag_len_obligation(profile: SrtpProfile) {
    let ak = [0x5au8; 20];
    let mut tx = ctx_cm(profile, &ak, [0x11; 16]);
    kani::assume(tx.rtcp_index < 0x7FFF_FFFE);
    let raw: [u8; 12] = kani::any();
    let mut p = raw.to_vec();
    tx.protect_rtcp(&mut p).unwrap();
    assert!(p.len() == 12 + 4 + 10);
}
#[kani::proof]
#[kani::unwind(30)]
fn c04_rtcp_tag_len_rfc5764_sha32() { rtcp_tag_len_obligation(SrtpProfile::Aes128Sha1_32); }
#[kani::proof]
#[kani::unwind(30)]
fn c04_rtcp_tag_len_rfc5764_sha80() { rtcp_tag_len_obligation(SrtpProfile::Aes128Sha1_80); }
/// SRTCP round trip under the _32 profile (whatever the tag length, unprotect inverts protect)
#[kani::proof]
#[kani::unwind(30)]
fn c04_rtcp_roundtrip_sha32_12() { rtcp_roundtrip_obligation_any_tag::<12>(SrtpProfile::Aes128Sha1_32); }
fn rtcp_roundtrip_obligation_any_tag<const N: usize>(profile: SrtpProfile) {
    let ak = [0x5au8; 20];
    let mut tx = ctx_cm(profile, &ak, [0x11; 16]);
    let mut rx = ctx_cm(profile, &ak, [0x11; 16]);
    rx.ssrc = tx.ssrc; rx.rtcp_keys.salt = tx.rtcp_keys.salt.clone();
    kani::assume(tx.rtcp_index < 0x7FFF_FFFE);
    let raw: [u8; N] = kani::any();
    let mut p = raw.to_vec();
    tx.protect_rtcp(&mut p).unwrap();
    rx.unprotect_rtcp(&mut p).unwrap();
    assert!(p[..] == raw[..]);
}
/// padding-only packet (empty payload, P bit set): the round trip must hold for it too
#[kani::proof]
#[kani::unwind(30)]
fn c04_roundtrip_sha80_p0_pad1() { roundtrip_obligation::<0, 1, 23>(SrtpProfile::Aes128Sha1_80); }


// ---- modular variants: the caller is checked against the CONTRACTS of estimate_roc / update
// (kani::stub_verified replaces the callee by "havoc the modifies set, assume the ensures clause")
#[kani::proof]
#[kani::unwind(30)]
#[kani::stub_verified(SrtpContext::estimate_roc)]
#[kani::stub_verified(SrtpContext::update)]
fn c04_protect_layout_sha32_p0_modular() { protect_layout_obligation::<0, 0>(SrtpProfile::Aes128Sha1_32); }
#[kani::proof]
#[kani::unwind(30)]
#[kani::stub_verified(SrtpContext::estimate_roc)]
#[kani::stub_verified(SrtpContext::update)]
fn c05_unprotect_hmac80_body10_fixedkey_modular() {
    srtp_hmac_obligation::<10>(SrtpProfile::NullCipherHmac, [0x5a; 20]);
}

/// the receive-path entry SrtpPacket::parse on a BytesMut whose first octet is literal (V=2, no
/// CSRC, no extension): header fields and body split exactly after the 12-byte header
#[kani::proof]
#[kani::unwind(8)]
fn c04_srtp_packet_parse_16_literal_b0() {
    let mut a: [u8; 16] = kani::any();
    a[0] = 0x80 | (a[0] & 0x20);
    let sp = SrtpPacket::parse(BytesMut::from(&a[..])).unwrap();
    assert!(sp.has_padding == (a[0] & 0x20 != 0));
    assert!(sp.header.marker == (a[1] & 0x80 != 0) && sp.header.payload_type == a[1] & 0x7f);
    assert!(sp.header.sequence_number == u16::from_be_bytes([a[2], a[3]]) && sp.header.ssrc == u32::from_be_bytes([a[8], a[9], a[10], a[11]]));
    assert!(sp.header.timestamp == u32::from_be_bytes([a[4], a[5], a[6], a[7]]));
    assert!(sp.header.csrcs.is_empty() && sp.header.extension.is_none() && sp.body[..] == a[12..]);
    core::mem::forget(sp);
}

/// the REAL receive path: protect into a buffer, SrtpPacket::parse on those bytes, unprotect —
/// header fields, payload and padding come back unchanged (no harness-built SrtpPacket)
fn full_roundtrip_via_parse<const PL: usize, const PAD: u8, const N: usize>(profile: SrtpProfile) {
    let ak = [0x5au8; 20];
    let mut tx = ctx_cm(profile, &ak, [0x11; 16]);
    let mut rx = ctx_cm(profile, &ak, [0x11; 16]);
    rx.ssrc = tx.ssrc; rx.rtp_keys.salt = tx.rtp_keys.salt.clone();
    rx.rollover_counter = tx.rollover_counter; rx.last_sequence = tx.last_sequence;
    kani::assume(well_formed(&tx) && well_formed(&rx));
    let pl: [u8; PL] = kani::any();
    let mut h = RtpHeader::new(kani::any::<u8>() & 0x7f, kani::any(), kani::any(), kani::any());
    h.marker = kani::any();
    let pkt = RtpPacket { header: h, payload: static_bytes_of(pl), padding_len: PAD };
    let mut out = [0u8; N];
    tx.protect(&pkt, &mut out[..]).unwrap();
    assert!(out[0] == 0x80 | if PAD != 0 { 0x20 } else { 0 });
    out[0] = 0x80 | if PAD != 0 { 0x20 } else { 0 };   // same value, written as a literal for constant propagation
    let sp = SrtpPacket::parse(BytesMut::from(&out[..])).unwrap();
    let got = rx.unprotect(sp).unwrap();
    assert!(got.header == pkt.header && got.payload[..] == pl[..] && got.padding_len == PAD);
    assert!(rx.rollover_counter == tx.rollover_counter && rx.last_sequence == tx.last_sequence);
    core::mem::forget(got); core::mem::forget(pkt);
}
#[kani::proof]
#[kani::unwind(30)]
fn c04_full_roundtrip_via_parse_sha80_p2_pad2() { full_roundtrip_via_parse::<2, 2, 26>(SrtpProfile::Aes128Sha1_80); }

// ---- thorough-tier shapes: CSRC + header extension + larger payload
fn roundtrip_rich_header<const PL: usize, const N: usize>(profile: SrtpProfile) {
    let ak = [0x5au8; 20];
    let mut tx = ctx_cm(profile, &ak, [0x11; 16]);
    let mut rx = ctx_cm(profile, &ak, [0x11; 16]);
    rx.ssrc = tx.ssrc; rx.rtp_keys.salt = tx.rtp_keys.salt.clone();
    rx.rollover_counter = tx.rollover_counter; rx.last_sequence = tx.last_sequence;
    kani::assume(well_formed(&tx) && well_formed(&rx));
    let pl: [u8; PL] = kani::any();
    let e: [u8; 4] = kani::any();
    let mut h = RtpHeader::new(kani::any::<u8>() & 0x7f, kani::any(), kani::any(), kani::any());
    h.marker = kani::any();
    h.csrcs.push(kani::any());
    h.extension = Some(crate::rtp::RtpHeaderExtension { profile: 0xBEDE, data: static_bytes_of(e) });
    let pkt = RtpPacket { header: h.clone(), payload: static_bytes_of(pl), padding_len: 0 };
    let mut out = [0u8; N];
    assert!(tx.protected_rtp_len(&pkt) == N && N == 12 + 4 + 8 + PL + 10);
    tx.protect(&pkt, &mut out[..]).unwrap();
    // header image: fixed part, CSRC, extension block in clear
    assert!(out[0] == 0x91 && out[12..16] == h.csrcs[0].to_be_bytes() && out[16..20] == [0xBE, 0xDE, 0x00, 0x01] && out[20..24] == e);
    let sp = SrtpPacket { header: h, body: BytesMut::from(&out[24..]), has_padding: false };
    let got = rx.unprotect(sp).unwrap();
    assert!(got.header == pkt.header && got.payload[..] == pl[..] && got.padding_len == 0);
    core::mem::forget(got); core::mem::forget(pkt);
}
#[kani::proof]
#[kani::unwind(40)]
fn c04_roundtrip_sha80_csrc1_ext4_p4() { roundtrip_rich_header::<4, 38>(SrtpProfile::Aes128Sha1_80); }
#[kani::proof]
#[kani::unwind(30)]
fn c04_roundtrip_sha80_p8() { roundtrip_obligation::<8, 0, 30>(SrtpProfile::Aes128Sha1_80); }
#[kani::proof]
#[kani::unwind(30)]
fn c04_roundtrip_sha32_p4_pad4() { roundtrip_obligation::<4, 4, 24>(SrtpProfile::Aes128Sha1_32); }

// ---- key derivation (RFC 3711 4.3): labels and the AES-CM PRF input
/// kdf(len, label, k_master, salt): keystream of AES-CM under k_master with IV = (salt padded to
/// 16 bytes) and the label XORed into byte 7 (key_derivation_rate 0, index 0)
#[kani::proof]
#[kani::unwind(24)]
fn c04_kdf_spec() {
    let mk: [u8; 16] = kani::any();
    let ms: [u8; 14] = kani::any();
    let label: u8 = kani::any();
    let out = SrtpContext::kdf(16, label, &mk, &ms).unwrap();
    let mut iv = [0u8; 16];
    iv[..14].copy_from_slice(&ms);
    iv[7] ^= label;
    let mut want = [0u8; 16];
    let mut c = <Aes128Ctr as ctr::cipher::KeyIvInit>::new_from_slices(&mk, &iv).unwrap();
    c.apply_keystream(&mut want);
    assert!(out[..] == want[..]);
}
/// derive_keys: RTP cipher / auth / salt use labels 0 / 1 / 2, RTCP 3 / 4 / 5 (RFC 3711 4.3.1),
/// with the lengths of the profile
fn derive_labels_obligation(p: SrtpProfile) {
    let mk = any_vec::<16>();
    let ms = any_vec::<14>();
    let keying = SrtpKeyingMaterial::new(mk.clone(), ms.clone());
    let (rtp, rtcp) = SrtpContext::derive_keys(p, &keying).unwrap();
    assert!(rtp.cipher_key == SrtpContext::kdf(16, 0, &mk, &ms).unwrap());
    assert!(rtp.salt == SrtpContext::kdf(p.salt_len(), 2, &mk, &ms).unwrap());
    assert!(rtcp.cipher_key == SrtpContext::kdf(16, 3, &mk, &ms).unwrap());
    assert!(rtcp.salt == SrtpContext::kdf(p.salt_len(), 5, &mk, &ms).unwrap());
    if p.auth_key_len() > 0 {
        assert!(rtp.auth_key == SrtpContext::kdf(20, 1, &mk, &ms).unwrap());
        assert!(rtcp.auth_key == SrtpContext::kdf(20, 4, &mk, &ms).unwrap());
    } else {
        assert!(rtp.auth_key.is_empty() && rtcp.auth_key.is_empty());
    }
}
#[kani::proof]
#[kani::unwind(24)]
fn c04_derive_keys_labels_sha80() { derive_labels_obligation(SrtpProfile::Aes128Sha1_80); }
#[kani::proof]
#[kani::unwind(24)]
fn c04_derive_keys_labels_gcm() { derive_labels_obligation(SrtpProfile::AeadAes128Gcm); }
