// Harnesses for src/srtp.rs (C04, C05). Injected as `mod verif_kani` at the end of the file.

pub(crate) fn lit_keys() -> SessionKeys {
    SessionKeys { cipher_key: any_vec::<16>(), auth_key: any_vec::<20>(), salt: any_vec::<14>() }
}
/// A literal SrtpContext: no crypto is executed to build it. The AES key schedules are
/// zero-filled and must never be read by the function under test (profiles that would
/// read them are excluded by the harness).
pub(crate) fn lit_ctx(profile: SrtpProfile) -> SrtpContext {
    SrtpContext {
        ssrc: kani::any(), _profile: profile, rtp_keys: lit_keys(), rtcp_keys: lit_keys(),
        rtp_aes_key: unsafe { core::mem::zeroed() }, rtcp_aes_key: unsafe { core::mem::zeroed() },
        rtp_gcm_cipher: None, rtcp_gcm_cipher: None, rtp_auth_prototype: None, rtcp_auth_prototype: None,
        direction: SrtpDirection::Receiver, rollover_counter: kani::any(), last_sequence: kani::any(),
        rtcp_index: kani::any(), auth_scratch: Vec::new(), last_used: unsafe { core::mem::zeroed() },
    }
}
fn any_profile() -> SrtpProfile {
    match kani::any::<u8>() & 3 { 0 => SrtpProfile::Aes128Sha1_80, 1 => SrtpProfile::Aes128Sha1_32, 2 => SrtpProfile::AeadAes128Gcm, _ => SrtpProfile::NullCipherHmac }
}

// ---------------------------------------------------------------- C04 kernels
/// RFC 3711 3.3.1 (written from the RFC text): with s_l the highest sequence number seen and
/// ROC the local rollover counter, v = ROC+1 if SEQ - s_l < -2^15, ROC-1 if SEQ - s_l > 2^15,
/// ROC otherwise (mod 2^32); before the first packet v = ROC.
pub(crate) fn post_estimate_roc(roc: u32, last: Option<u16>, seq: u16, r: u32) -> bool {
    match last {
        None => r == roc,
        Some(l) => {
            let d = seq as i64 - l as i64;
            if d < -32768 { r == roc.wrapping_add(1) } else if d > 32768 { r == roc.wrapping_sub(1) } else { r == roc }
        }
    }
}
/// RFC 3711 3.3.1: the receiver keeps the highest index 2^16*ROC+SEQ it has authenticated.
pub(crate) fn post_update(roc0: u32, last0: Option<u16>, seq: u16, roc: u32, roc1: u32, last1: Option<u16>) -> bool {
    match last0 {
        None => last1 == Some(seq) && roc1 == roc,
        Some(l) => {
            let cur = (roc0 as u64) * 65536 + l as u64;
            let new = (roc as u64) * 65536 + seq as u64;
            if new > cur { last1 == Some(seq) && roc1 == roc } else { last1 == Some(l) && roc1 == roc0 }
        }
    }
}

#[kani::proof_for_contract(SrtpContext::estimate_roc)]
fn c04_estimate_roc_contract() {
    let c = lit_ctx(any_profile());
    let seq: u16 = kani::any();
    let r = c.estimate_roc(seq);
    // same predicate as the in-place contract; lets a counterexample be replayed natively
    assert!(post_estimate_roc(c.rollover_counter, c.last_sequence, seq, r));
}

#[kani::proof_for_contract(SrtpContext::update)]
fn c04_update_contract() {
    let mut c = lit_ctx(any_profile());
    let (roc0, last0) = (c.rollover_counter, c.last_sequence);
    let (seq, roc): (u16, u32) = (kani::any(), kani::any());
    c.update(seq, roc);
    assert!(post_update(roc0, last0, seq, roc, c.rollover_counter, c.last_sequence));
}

/// canary: a false claim about estimate_roc must FAIL (vacuity / pipeline self-check)
#[kani::proof]
fn canary_estimate_roc_always_roc() {
    let c = lit_ctx(SrtpProfile::Aes128Sha1_80);
    let r = c.estimate_roc(kani::any());
    assert!(r == c.rollover_counter);
}

/// RFC 3711 3.3.1, one step of a history: the receiver holds index h = roc*2^16 + s_l (the
/// highest accepted), a genuine packet with sender index i arrives, |i - h| < 2^15.
/// Then estimate_roc(i mod 2^16) == i div 2^16 and update() leaves max(h, i).
#[kani::proof]
fn c04_index_step() {
    let mut c = lit_ctx(any_profile());
    let l: u16 = kani::any();
    c.last_sequence = Some(l);
    let h: u64 = ((c.rollover_counter as u64) << 16) | l as u64;
    let i: u64 = kani::any();
    kani::assume(i < (1u64 << 48));
    let d = i as i64 - h as i64;
    kani::assume(d > -32768 && d < 32768);
    kani::cover!(d < 0 && (i >> 16) != (h >> 16));
    kani::cover!(d > 0 && (i >> 16) != (h >> 16));
    let v = c.estimate_roc(i as u16);
    assert!(v as u64 == i >> 16);
    c.update(i as u16, v);
    let h2 = ((c.rollover_counter as u64) << 16) | c.last_sequence.unwrap() as u64;
    assert!(h2 == if i > h { i } else { h });
}

// spec functions written from RFC 3711 4.1.1 / RFC 7714 8.1, 9.1 (not from the code)
fn spec_iv_aes_cm(salt: &[u8], ssrc: u32, roc: u32, seq: u16) -> [u8; 16] {
    // IV = (k_s * 2^16) XOR (SSRC * 2^64) XOR (i * 2^16), k_s 112 bits, i = 2^16*ROC + SEQ
    let mut ks: u128 = 0;
    let mut j = 0;
    while j < 14 { ks = (ks << 8) | salt[j] as u128; j += 1; }
    let i: u128 = ((roc as u128) << 16) | seq as u128;
    let iv = (ks << 16) ^ ((ssrc as u128) << 64) ^ (i << 16);
    iv.to_be_bytes()
}
fn spec_iv_gcm_rtp(salt: &[u8], ssrc: u32, roc: u32, seq: u16) -> [u8; 12] {
    // 00 00 || SSRC || ROC || SEQ, XOR 96-bit salt
    let s = ssrc.to_be_bytes(); let r = roc.to_be_bytes(); let q = seq.to_be_bytes();
    let b = [0, 0, s[0], s[1], s[2], s[3], r[0], r[1], r[2], r[3], q[0], q[1]];
    let mut o = [0u8; 12]; let mut j = 0; while j < 12 { o[j] = b[j] ^ salt[j]; j += 1; } o
}
fn spec_iv_gcm_rtcp(salt: &[u8], ssrc: u32, index: u32) -> [u8; 12] {
    // 00 00 || SSRC || 00 00 || (0 || 31-bit SRTCP index), XOR 96-bit salt
    let s = ssrc.to_be_bytes(); let x = index.to_be_bytes();
    let b = [0, 0, s[0], s[1], s[2], s[3], 0, 0, x[0], x[1], x[2], x[3]];
    let mut o = [0u8; 12]; let mut j = 0; while j < 12 { o[j] = b[j] ^ salt[j]; j += 1; } o
}

#[kani::proof]
#[kani::unwind(18)]
fn c04_build_iv_spec() {
    let c = lit_ctx(any_profile());
    let (seq, roc): (u16, u32) = (kani::any(), kani::any());
    assert!(c.build_iv(seq, roc) == spec_iv_aes_cm(&c.rtp_keys.salt, c.ssrc, roc, seq));
}
#[kani::proof]
#[kani::unwind(18)]
fn c04_build_gcm_nonce_spec() {
    let c = lit_ctx(any_profile());
    let (seq, roc): (u16, u32) = (kani::any(), kani::any());
    assert!(c.build_gcm_nonce(seq, roc) == spec_iv_gcm_rtp(&c.rtp_keys.salt, c.ssrc, roc, seq));
}
#[kani::proof]
#[kani::unwind(18)]
fn c04_build_gcm_rtcp_nonce_spec() {
    let c = lit_ctx(any_profile());
    let index: u32 = kani::any();
    assert!(c.build_gcm_rtcp_nonce(index) == spec_iv_gcm_rtcp(&c.rtcp_keys.salt, c.ssrc, index));
}
/// corollary used by "no two packets of a session share an IV": for a fixed salt the IV is
/// injective in (ssrc, roc, seq) — checked on the real functions, not on the spec.
#[kani::proof]
#[kani::unwind(18)]
fn c04_iv_injective() {
    let mut c = lit_ctx(any_profile());
    let (s1, r1, q1): (u32, u32, u16) = (kani::any(), kani::any(), kani::any());
    let (s2, r2, q2): (u32, u32, u16) = (kani::any(), kani::any(), kani::any());
    c.ssrc = s1; let a = c.build_iv(q1, r1); let g = c.build_gcm_nonce(q1, r1);
    c.ssrc = s2; let b = c.build_iv(q2, r2); let h = c.build_gcm_nonce(q2, r2);
    if a == b { assert!(s1 == s2 && r1 == r2 && q1 == q2); }
    if g == h { assert!(s1 == s2 && r1 == r2 && q1 == q2); }
}
/// RFC 3711 8.2 / RFC 7714 14.2 parameter table
#[kani::proof]
fn c04_profile_table() {
    let p = any_profile();
    let (t, s, k, a) = (p.tag_len(), p.salt_len(), p.key_len(), p.auth_key_len());
    match p {
        SrtpProfile::Aes128Sha1_80 => assert!(t == 10 && s == 14 && k == 16 && a == 20),
        SrtpProfile::Aes128Sha1_32 => assert!(t == 4 && s == 14 && k == 16 && a == 20),
        SrtpProfile::NullCipherHmac => assert!(t == 10 && s == 14 && k == 16 && a == 20),
        SrtpProfile::AeadAes128Gcm => assert!(t == 16 && s == 12 && k == 16 && a == 0),
    }
}
