// Harnesses for src/transports/dtls/mod.rs (C03). Injected as `mod verif_kani` at the end of the file.

fn lit_keys(present: bool) -> Option<SessionKeys> {
    if !present { return None; }
    Some(SessionKeys {
        client_write_key: vec![1; 16], server_write_key: vec![2; 16],
        client_write_iv: vec![3; 4], server_write_iv: vec![4; 4],
        master_secret: Vec::new(), client_random: Vec::new(), server_random: Vec::new(),
    })
}
fn lit_hctx(keys: bool, crypto: bool) -> HandshakeContext {
    HandshakeContext {
        sequence_number: 0, epoch: 0, read_epoch: 0, current_record_epoch: 0, message_seq: 0, recv_message_seq: 0, post_hvr: false,
        last_flight_records: None, incomplete_handshake: BytesMut::new(), incomplete_msg_seq: 0,
        local_secret: None, local_public_key_bytes: Vec::new(), peer_public_key: None, peer_certificate: None,
        client_random: None, server_random: None,
        session_keys: lit_keys(keys),
        session_crypto: if crypto {
            Some(SessionCrypto { keys: lit_keys(true).unwrap(),
                client_write_cipher: Aes128Gcm::new_from_slice(&[1u8; 16]).unwrap(),
                server_write_cipher: Aes128Gcm::new_from_slice(&[2u8; 16]).unwrap() })
        } else { None },
        handshake_messages: Vec::new(), ems_negotiated: false, srtp_profile: None,
        expected_remote_fingerprint: None, server_key_exchange_verified: false,
    }
}
fn any_content_type() -> ContentType {
    match kani::any::<u8>() % 5 { 0 => ContentType::ChangeCipherSpec, 1 => ContentType::Alert, 2 => ContentType::Handshake,
        3 => ContentType::ApplicationData, _ => ContentType::Heartbeat }
}

// recording stubs: the "contract" try_decrypt_record sees of its callees. They encode which
// key/iv/sequence/type they were called with into their result so the caller's obligation can
// state exactly what was passed. (Their own obligations are c03_decrypt_* below.)
fn rec_decrypt_record(ct: ContentType, v: ProtocolVersion, seq: u64, p: &Bytes, key: &[u8], iv: &[u8]) -> Result<Vec<u8>> {
    let s = seq.to_be_bytes();
    Ok(vec![0xA0, key[0], iv[0], s[0], s[1], s[2], s[3], s[4], s[5], s[6], s[7], ct as u8, v.major, v.minor, p.len() as u8])
}
fn rec_decrypt_with_cipher(ct: ContentType, v: ProtocolVersion, seq: u64, p: &Bytes, _c: &Aes128Gcm, iv: &[u8]) -> Result<Bytes> {
    let s = seq.to_be_bytes();
    Ok(Bytes::from(vec![0xB0, 0, iv[0], s[0], s[1], s[2], s[3], s[4], s[5], s[6], s[7], ct as u8, v.major, v.minor, p.len() as u8]))
}

/// The record-acceptance gate, for ALL epochs, 48-bit sequence numbers, content types, key
/// states and both roles. `self` is never read: the harness hands it uninitialised memory,
/// any read would be flagged by CBMC.
fn gate_obligation(keys: bool, crypto: bool) {
    let b: Box<core::mem::MaybeUninit<DtlsInner>> = Box::new(core::mem::MaybeUninit::uninit());
    let inner: &DtlsInner = unsafe { &*b.as_ptr() };
    let ctx = lit_hctx(keys, crypto);
    let is_client: bool = kani::any();
    let epoch: u16 = kani::any();
    let ct = any_content_type();
    let seq = kani::any::<u64>() & 0xFFFF_FFFF_FFFF;
    let rec = DtlsRecord { content_type: ct, version: ProtocolVersion { major: kani::any(), minor: kani::any() }, epoch,
                           sequence_number: seq, payload: Bytes::from_static(&[9, 9, 9]) };
    let r = inner.try_decrypt_record(&rec, &ctx, is_client);
    let have_keys = keys || crypto;
    // (3) from the property statement: nothing unauthenticated reaches the upper layer, and once
    //     keys exist an alert is honoured only from an authenticated record
    if r.is_ok() && ct == ContentType::ApplicationData { assert!(epoch != 0); }
    if r.is_ok() && ct == ContentType::Alert && have_keys { assert!(epoch != 0); }
    if epoch != 0 {
        // (1) protected epoch without keys is rejected
        if !have_keys { assert!(r.is_err()); }
        else if let Ok(p) = r {
            // (2) soundness: whatever is accepted is exactly the decrypt result for (type, version,
            //     epoch*2^48|seq, payload) under the PEER's write key/iv. (Rejecting more — e.g. a
            //     stale epoch — is allowed; the cover below keeps the clause non-vacuous.)
            let full = (((epoch as u64) << 48) | seq).to_be_bytes();
            assert!(p.len() == 15);
            assert!(p[0] == if crypto { 0xB0 } else { 0xA0 });
            if !crypto { assert!(p[1] == if is_client { 2 } else { 1 }); }
            assert!(p[2] == if is_client { 4 } else { 3 });
            assert!(p[3..11] == full[..]);
            assert!(p[11] == ct as u8 && p[12] == rec.version.major && p[13] == rec.version.minor && p[14] == 3);
            kani::cover!(true);
            core::mem::forget(p);
        }
    } else {
        // epoch 0 is the handshake epoch: what is let through is the record's own payload, unchanged
        if let Ok(p) = r {
            assert!(p[..] == [9, 9, 9]);
            kani::cover!(ct == ContentType::Handshake);
        }
    }
    core::mem::forget(b);
}
#[kani::proof]
#[kani::unwind(20)]
#[kani::stub(decrypt_record, rec_decrypt_record)]
#[kani::stub(decrypt_record_with_cipher, rec_decrypt_with_cipher)]
#[kani::stub(tracing::callsite::DefaultCallsite::interest, st_interest)]
#[kani::stub(tracing::__macro_support::__is_enabled, st_enabled)]
#[kani::stub(tracing::Event::dispatch, st_dispatch)]
fn c03_gate_no_keys() { gate_obligation(false, false); }
#[kani::proof]
#[kani::unwind(20)]
#[kani::stub(decrypt_record, rec_decrypt_record)]
#[kani::stub(decrypt_record_with_cipher, rec_decrypt_with_cipher)]
#[kani::stub(tracing::callsite::DefaultCallsite::interest, st_interest)]
#[kani::stub(tracing::__macro_support::__is_enabled, st_enabled)]
#[kani::stub(tracing::Event::dispatch, st_dispatch)]
fn c03_gate_session_keys() { gate_obligation(true, false); }
#[kani::proof]
#[kani::unwind(20)]
#[kani::stub(decrypt_record, rec_decrypt_record)]
#[kani::stub(decrypt_record_with_cipher, rec_decrypt_with_cipher)]
#[kani::stub(tracing::callsite::DefaultCallsite::interest, st_interest)]
#[kani::stub(tracing::__macro_support::__is_enabled, st_enabled)]
#[kani::stub(tracing::Event::dispatch, st_dispatch)]
fn c03_gate_session_crypto() { gate_obligation(true, true); }

/// canary: "every epoch-0 record is rejected" is false (handshake must pass) — must FAIL
#[kani::proof]
#[kani::unwind(20)]
#[kani::stub(decrypt_record, rec_decrypt_record)]
#[kani::stub(decrypt_record_with_cipher, rec_decrypt_with_cipher)]
#[kani::stub(tracing::callsite::DefaultCallsite::interest, st_interest)]
#[kani::stub(tracing::__macro_support::__is_enabled, st_enabled)]
#[kani::stub(tracing::Event::dispatch, st_dispatch)]
fn canary_gate_rejects_all_epoch0() {
    let b: Box<core::mem::MaybeUninit<DtlsInner>> = Box::new(core::mem::MaybeUninit::uninit());
    let inner: &DtlsInner = unsafe { &*b.as_ptr() };
    let ctx = lit_hctx(false, false);
    let rec = DtlsRecord { content_type: any_content_type(), version: ProtocolVersion::DTLS_1_2, epoch: 0,
                           sequence_number: 0, payload: Bytes::from_static(&[9, 9, 9]) };
    assert!(inner.try_decrypt_record(&rec, &ctx, kani::any()).is_err());
}

/// in-place contract predicate — RFC 5246 6.2.3.3 / RFC 6347 4.1.2.1:
/// additional data = seq_num(8, epoch||seq) || type || version(2) || length(2)
pub(crate) fn post_make_aad(seq: u64, ct: ContentType, v: ProtocolVersion, len: usize, a: &[u8; 13]) -> bool {
    let s = seq.to_be_bytes();
    a[..8] == s[..] && a[8] == ct as u8 && a[9] == v.major && a[10] == v.minor
        && a[11] == (len >> 8) as u8 && a[12] == (len & 0xff) as u8
}
#[kani::proof_for_contract(make_aad)]
fn c03_make_aad_spec() {
    let seq: u64 = kani::any();
    let ct = any_content_type();
    let v = ProtocolVersion { major: kani::any(), minor: kani::any() };
    let len: usize = kani::any();
    kani::assume(len <= 0xFFFF);
    let a = make_aad(seq, ct, v, len);
    assert!(post_make_aad(seq, ct, v, len, &a));
}

/// decrypt_record_with_cipher: Ok(p) iff the AEAD opens with nonce = iv(4)||payload[0..8],
/// AAD = make_aad(seq, type, version, |ciphertext|), tag = last 16 bytes; p = plaintext.
fn decrypt_with_cipher_obligation<const N: usize>() {
    let key = [7u8; 16];
    let cipher = Aes128Gcm::new_from_slice(&key).unwrap();
    let iv: [u8; 4] = kani::any();
    let seq: u64 = kani::any();
    let ct = ContentType::ApplicationData;
    let v = ProtocolVersion::DTLS_1_2;
    let raw: [u8; N] = kani::any();
    let payload = static_bytes_of(raw);
    let r = decrypt_record_with_cipher(ct, v, seq, &payload, &cipher, &iv);
    if N < 24 { assert!(r.is_err()); return; }
    let mut nonce = [0u8; 12];
    nonce[..4].copy_from_slice(&iv);
    nonce[4..].copy_from_slice(&raw[..8]);
    let aad = make_aad(seq, ct, v, N - 24);
    let mut buf = raw[8..N - 16].to_vec();
    let tag = Tag::clone_from_slice(&raw[N - 16..]);
    let ok = cipher.decrypt_in_place_detached(Nonce::from_slice(&nonce), &aad, &mut buf, &tag).is_ok();
    assert!(r.is_ok() == ok);
    if let Ok(p) = r { assert!(p[..] == buf[..]); kani::cover!(true); core::mem::forget(p); }
}
#[kani::proof]
#[kani::unwind(40)]
fn c03_decrypt_with_cipher_28() { decrypt_with_cipher_obligation::<28>(); }
#[kani::proof]
#[kani::unwind(40)]
fn c03_decrypt_with_cipher_short_23() { decrypt_with_cipher_obligation::<23>(); }
#[kani::proof]
#[kani::unwind(40)]
fn c03_decrypt_with_cipher_short_0() { decrypt_with_cipher_obligation::<0>(); }

/// encrypt_record then decrypt_record under the same key/iv/seq/type returns the payload, and the
/// explicit nonce on the wire is the record sequence number (so a fresh seq => a fresh nonce)
#[kani::proof]
#[kani::unwind(40)]
fn c03_encrypt_decrypt_roundtrip_4() {
    let key = [7u8; 16];
    let iv: [u8; 4] = kani::any();
    let seq: u64 = kani::any();
    let ct = any_content_type();
    let v = ProtocolVersion::DTLS_1_2;
    let pt: [u8; 4] = kani::any();
    let enc = encrypt_record(ct, v, seq, &pt, &key, &iv).unwrap();
    assert!(enc.len() == 8 + 4 + 16);
    assert!(enc[..8] == seq.to_be_bytes());
    let mut arr = [0u8; 28];
    arr.copy_from_slice(&enc);
    let b = static_bytes_of(arr);
    let dec = decrypt_record(ct, v, seq, &b, &key, &iv).unwrap();
    assert!(dec[..] == pt[..]);
}

// ---- key plumbing the gate depends on (RFC 5246 6.3)
/// create_session_crypto: the cached client/server write ciphers are built from the client/server
/// write KEYS of the same SessionKeys (no role mix-up) and the keys are carried over unchanged.
/// Checked through the public AEAD API: sealing with the cached cipher == sealing with a cipher
/// freshly built from the corresponding key.
#[kani::proof]
#[kani::unwind(24)]
fn c03_create_session_crypto_binds_keys_to_roles() {
    let ck: [u8; 16] = kani::any();
    let sk: [u8; 16] = kani::any();
    let keys = SessionKeys { client_write_key: ck.to_vec(), server_write_key: sk.to_vec(), client_write_iv: vec![3; 4], server_write_iv: vec![4; 4],
        master_secret: Vec::new(), client_random: Vec::new(), server_random: Vec::new() };
    let c = create_session_crypto(keys).unwrap();
    assert!(c.keys.client_write_key[..] == ck[..] && c.keys.server_write_key[..] == sk[..]);
    assert!(c.keys.client_write_iv[..] == [3; 4] && c.keys.server_write_iv[..] == [4; 4]);
    let nonce = [9u8; 12];
    let aad = [1u8, 2, 3];
    let mut a = [5u8, 6, 7, 8]; let mut b = a; let mut x = a; let mut y = a;
    let ta = c.client_write_cipher.encrypt_in_place_detached(Nonce::from_slice(&nonce), &aad, &mut a).unwrap();
    let tb = Aes128Gcm::new_from_slice(&ck).unwrap().encrypt_in_place_detached(Nonce::from_slice(&nonce), &aad, &mut b).unwrap();
    let tx = c.server_write_cipher.encrypt_in_place_detached(Nonce::from_slice(&nonce), &aad, &mut x).unwrap();
    let ty = Aes128Gcm::new_from_slice(&sk).unwrap().encrypt_in_place_detached(Nonce::from_slice(&nonce), &aad, &mut y).unwrap();
    assert!(a == b && ta == tb && x == y && tx == ty);
    core::mem::forget(c);
}
/// expand_keys: key_block = PRF(master_secret, "key expansion", server_random || client_random) and
/// client_write_key | server_write_key | client_write_IV | server_write_IV are cut from it in that order
#[kani::proof]
#[kani::unwind(70)]
fn c03_expand_keys_block_order() {
    let ms: [u8; 4] = kani::any();
    let cr: [u8; 2] = kani::any();
    let sr: [u8; 2] = kani::any();
    let k = expand_keys(&ms, &cr, &sr).unwrap();
    let seed = [sr[0], sr[1], cr[0], cr[1]];
    let kb = prf_sha256(&ms, b"key expansion", &seed, 40).unwrap();
    assert!(kb.len() == 40);
    assert!(k.client_write_key[..] == kb[0..16] && k.server_write_key[..] == kb[16..32]);
    assert!(k.client_write_iv[..] == kb[32..36] && k.server_write_iv[..] == kb[36..40]);
    assert!(k.master_secret[..] == ms[..] && k.client_random[..] == cr[..] && k.server_random[..] == sr[..]);
    core::mem::forget(k);
}
