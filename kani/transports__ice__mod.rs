// Harnesses for src/transports/ice/mod.rs (C16: candidate and pair priorities, RFC 8445 5.1.2, 6.1.2.3; RFC 6544 4.1)

fn any_ctype() -> (IceCandidateType, u32) {
    match kani::any::<u8>() % 4 { 0 => (IceCandidateType::Host, 126), 1 => (IceCandidateType::PeerReflexive, 110),
        2 => (IceCandidateType::ServerReflexive, 100), _ => (IceCandidateType::Relay, 0) }
}
/// in-place contract predicate (RFC 8445 5.1.2.1): priority = 2^24*type_pref + 2^8*local_pref + (256 - component)
/// with 0 <= type_pref <= 126 and 0 <= local_pref <= 65535. The RECOMMENDED type preferences
/// (126/110/100/0) are not demanded here — only their ordering is (c16_priority_ordering).
pub(crate) fn post_priority_for(_typ: IceCandidateType, component: u16, r: u32) -> bool {
    let comp = if component > 256 { 256u32 } else { component as u32 };
    (r >> 24) <= 126 && (r & 0xFF) == (256 - comp) & 0xFF && (256 - comp) <= 255 && r <= 0x7EFF_FFFF
}
#[kani::proof_for_contract(IceCandidate::priority_for)]
fn c16_priority_for_contract() {
    let (t, _) = any_ctype();
    let c: u16 = kani::any();
    kani::assume(c >= 1); // RFC 8445 5.1.2.1: component IDs are 1..=256 (the contract's precondition)
    let r = IceCandidate::priority_for(t, c);
    assert!(post_priority_for(t, c, r));
}
/// ordering: host > prflx > srflx > relay for the same component; lower component id wins within a type
#[kani::proof]
fn c16_priority_ordering() {
    let c: u16 = kani::any();
    kani::assume(c >= 1 && c <= 256);
    let h = IceCandidate::priority_for(IceCandidateType::Host, c);
    let p = IceCandidate::priority_for(IceCandidateType::PeerReflexive, c);
    let s = IceCandidate::priority_for(IceCandidateType::ServerReflexive, c);
    let r = IceCandidate::priority_for(IceCandidateType::Relay, c);
    assert!(h > p && p > s && s > r && r > 0);
    let c2: u16 = kani::any();
    kani::assume(c2 >= 1 && c2 <= 256 && c2 > c);
    assert!(IceCandidate::priority_for(IceCandidateType::Host, c2) < h);
}
/// RFC 6544 4.1: same formula with local preference passive > active > so, all below 2^31
#[kani::proof]
fn c16_priority_for_tcp_spec() {
    let (t, _tp) = any_ctype();
    let c: u16 = kani::any();
    let tt = match kani::any::<u8>() % 3 { 0 => TcpType::Passive, 1 => TcpType::Active, _ => TcpType::So };
    kani::assume(c >= 1);
    let r = IceCandidate::priority_for_tcp(t, c, tt);
    let comp = if c > 256 { 256u32 } else { c as u32 };
    // same three-field layout as for UDP; the tcptype only moves the local-preference field
    assert!((r >> 24) <= 126 && (r & 0xFF) == 256 - comp && r <= 0x7EFF_FFFF);
    assert!((r >> 24) == (IceCandidate::priority_for(t, c) >> 24));
    kani::assume(c <= 256);
    assert!(IceCandidate::priority_for_tcp(t, c, TcpType::Passive) > IceCandidate::priority_for_tcp(t, c, TcpType::Active));
    assert!(IceCandidate::priority_for_tcp(t, c, TcpType::Active) > IceCandidate::priority_for_tcp(t, c, TcpType::So));
    assert!(IceCandidate::priority_for(t, c) >= IceCandidate::priority_for_tcp(t, c, tt));
}
/// in-place contract predicate — RFC 8445 6.1.2.3, computed in u128 so that overflow of the u64
/// result would show as a mismatch
pub(crate) fn post_pair_priority(local: u32, remote: u32, controlling: bool, r: u64) -> bool {
    let (g, d) = if controlling { (local as u128, remote as u128) } else { (remote as u128, local as u128) };
    let spec = (1u128 << 32) * (if g < d { g } else { d }) + 2 * (if g > d { g } else { d }) + if g > d { 1 } else { 0 };
    spec <= u64::MAX as u128 && r as u128 == spec
}
fn cand(priority: u32) -> IceCandidate {
    IceCandidate { foundation: String::new(), priority, address: SocketAddr::from(([0, 0, 0, 0], 0)), typ: IceCandidateType::Host,
        transport: String::new(), tcp_type: None, related_address: None, component: 1 }
}
/// RFC 8445 6.1.2.3: pair priority = 2^32*MIN(G,D) + 2*MAX(G,D) + (G>D?1:0); no u64 overflow for ANY
/// remote priority when the local one is a locally computed priority (<= 0x7EFF_FFFF, proved above);
/// both agents compute the same value from swapped local/remote priorities.
#[kani::proof_for_contract(IceCandidatePair::priority)]
fn c16_pair_priority_contract() {
    let (l, r): (u32, u32) = (kani::any(), kani::any());
    let role = if kani::any() { IceRole::Controlling } else { IceRole::Controlled };
    let a = IceCandidatePair::new(cand(l), cand(r));
    let p = a.priority(role);
    if l <= 0x7EFF_FFFF { assert!(post_pair_priority(l, r, matches!(role, IceRole::Controlling), p)); }
    core::mem::forget(a);
}
#[kani::proof]
fn c16_pair_priority_formula_and_symmetry() {
    let l: u32 = kani::any();
    let r: u32 = kani::any();
    // each agent's LOCAL candidate priority is one it computed itself (priority_for* <= 0x7EFFFFFF)
    kani::assume(l <= 0x7EFF_FFFF && r <= 0x7EFF_FFFF);
    let a = IceCandidatePair::new(cand(l), cand(r));
    let b = IceCandidatePair::new(cand(r), cand(l));
    let pa = a.priority(IceRole::Controlling);
    let (g, d) = (l as u128, r as u128);
    let spec = (1u128 << 32) * (if g < d { g } else { d }) + 2 * (if g > d { g } else { d }) + if g > d { 1 } else { 0 };
    assert!(spec <= u64::MAX as u128 && pa as u128 == spec);
    // the peer (controlled) sees the same pair with local/remote swapped
    let pb = b.priority(IceRole::Controlled);
    assert!(pa == pb);
    core::mem::forget(a); core::mem::forget(b);
}
/// the two agents order any two pairs identically
#[kani::proof]
fn c16_pair_priority_order_agreement() {
    let (l1, r1, l2, r2): (u32, u32, u32, u32) = (kani::any(), kani::any(), kani::any(), kani::any());
    kani::assume(l1 <= 0x7EFF_FFFF && l2 <= 0x7EFF_FFFF && r1 <= 0x7EFF_FFFF && r2 <= 0x7EFF_FFFF);
    let a1 = IceCandidatePair::new(cand(l1), cand(r1)).priority(IceRole::Controlling);
    let a2 = IceCandidatePair::new(cand(l2), cand(r2)).priority(IceRole::Controlling);
    let b1 = IceCandidatePair::new(cand(r1), cand(l1)).priority(IceRole::Controlled);
    let b2 = IceCandidatePair::new(cand(r2), cand(l2)).priority(IceRole::Controlled);
    assert!((a1 < a2) == (b1 < b2) && (a1 == a2) == (b1 == b2));
}
#[kani::proof]
fn canary_pair_priority_role_independent() {
    let (l, r): (u32, u32) = (kani::any(), kani::any());
    kani::assume(l <= 0x7EFF_FFFF && r <= 0x7EFF_FFFF);
    let a = IceCandidatePair::new(cand(l), cand(r));
    assert!(a.priority(IceRole::Controlling) == a.priority(IceRole::Controlled));
}

/// RFC 4571 framing used for STUN over ICE-TCP: 16-bit big-endian length, then the message
#[kani::proof]
#[kani::unwind(12)]
fn c16_frame_stun_for_tcp_layout() {
    let d: [u8; 7] = kani::any();
    let f = frame_stun_for_tcp(&d);
    assert!(f.len() == 9 && f[0] == 0 && f[1] == 7 && f[2..] == d[..]);
}
