// Harnesses for src/media/depacketizer.rs (C07: the H.264 RTP payload parser, RFC 6184, fed with
// payload bytes straight from the network). First payload octet (NAL type) literal, the rest symbolic.

fn pkt<const N: usize>(first: u8) -> RtpPacket {
    let mut a: [u8; N] = kani::any();
    a[0] = (a[0] & 0xE0) | first;     // F/NRI bits symbolic, NAL type literal
    let mut h = crate::rtp::RtpHeader::new(96, kani::any(), kani::any(), kani::any());
    h.marker = kani::any();
    RtpPacket { header: h, payload: crate::verif_prelude::static_bytes_of(a), padding_len: 0 }
}
fn addr() -> SocketAddr { SocketAddr::from(([127, 0, 0, 1], 5004)) }

/// STAP-A with symbolic NAL-unit lengths: never panics; every emitted NAL lies inside the payload
#[kani::proof]
#[kani::unwind(6)]
#[kani::stub(tracing::callsite::DefaultCallsite::interest, st_interest)]
#[kani::stub(tracing::__macro_support::__is_enabled, st_enabled)]
#[kani::stub(tracing::Event::dispatch, st_dispatch)]
fn c07_h264_stap_a_7() {
    let mut d = H264Depacketizer::new();
    let r = d.push(pkt::<7>(24), 90000, addr(), MediaKind::Video);
    if let Ok(v) = &r { assert!(v.len() <= 2); }
    core::mem::forget(r); core::mem::forget(d);
}
/// FU-A start / continuation / end on a fresh depacketizer and after a start fragment
#[kani::proof]
#[kani::unwind(8)]
#[kani::stub(tracing::callsite::DefaultCallsite::interest, st_interest)]
#[kani::stub(tracing::__macro_support::__is_enabled, st_enabled)]
#[kani::stub(tracing::Event::dispatch, st_dispatch)]
fn c07_h264_fu_a_two_packets_4() {
    let mut d = H264Depacketizer::new();
    let r1 = d.push(pkt::<4>(28), 90000, addr(), MediaKind::Video);
    let r2 = d.push(pkt::<4>(28), 90000, addr(), MediaKind::Video);
    core::mem::forget(r1); core::mem::forget(r2); core::mem::forget(d);
}
#[kani::proof]
#[kani::unwind(6)]
#[kani::stub(tracing::callsite::DefaultCallsite::interest, st_interest)]
#[kani::stub(tracing::__macro_support::__is_enabled, st_enabled)]
#[kani::stub(tracing::Event::dispatch, st_dispatch)]
fn c07_h264_fu_a_1() {
    let mut d = H264Depacketizer::new();
    let r = d.push(pkt::<1>(28), 90000, addr(), MediaKind::Video);
    assert!(matches!(&r, Ok(v) if v.is_empty()));
    core::mem::forget(r); core::mem::forget(d);
}
