// Shared helpers for the injected harness modules (cfg(kani) only).
// Stubs listed here are part of the trusted base and are enumerated in every evidence file.
use bytes::Bytes;

/// Symbolic content behind a static vtable: `Bytes::from_static` keeps CBMC away from the
/// promotable/shared vtables (atomic CAS in shallow_clone) — DESIGN.md 2.5.
pub fn static_bytes<const N: usize>() -> Bytes {
    let a: [u8; N] = kani::any();
    let l: &'static [u8; N] = Box::leak(Box::new(a));
    Bytes::from_static(&l[..])
}
pub fn static_bytes_of<const N: usize>(a: [u8; N]) -> Bytes {
    let l: &'static [u8; N] = Box::leak(Box::new(a));
    Bytes::from_static(&l[..])
}
pub fn any_vec<const N: usize>() -> Vec<u8> {
    let a: [u8; N] = kani::any();
    a.to_vec()
}

// tracing: any reachable thread_local! crashes the Kani compiler; logging becomes a no-op.
pub fn st_interest(_c: &'static tracing::callsite::DefaultCallsite) -> tracing::subscriber::Interest { tracing::subscriber::Interest::never() }
pub fn st_enabled(_m: &'static tracing::Metadata<'static>, _i: tracing::subscriber::Interest) -> bool { false }
pub fn st_dispatch<'a: 'a>(_m: &'static tracing::Metadata<'static>, _f: &'a tracing::field::ValueSet<'_>) {}
pub fn st_format(_a: core::fmt::Arguments<'_>) -> String { String::new() }
// parking_lot: an uncontended lock never takes the slow path (single-threaded harness).
pub fn never_bool(_a: &parking_lot::RawMutex, _b: Option<std::time::Instant>) -> bool { kani::assume(false); true }
pub fn never_unit(_a: &parking_lot::RawMutex, _b: bool) { kani::assume(false); }

// std::time::Instant::now reaches clock_gettime (foreign function): a fixed instant stands in
pub fn st_instant_now() -> std::time::Instant { unsafe { core::mem::zeroed() } }
