// Harnesses for src/transports/dtls/handshake.rs (C07, bounded): every byte string of the stated
// length through each handshake-body decoder; Kani checks every index, slice, arithmetic
// operation, unwrap and `bytes` cursor advance. One harness per concrete length.

macro_rules! total {
    ($name:ident, $ty:ident, $n:expr, $u:expr) => {
        #[kani::proof]
        #[kani::unwind($u)]
        fn $name() {
            let mut b = static_bytes::<$n>();
            let r = $ty::decode(&mut b);
            kani::cover!(r.is_ok());
            core::mem::forget(r);
        }
    };
    ($name:ident, $ty:ident, $n:expr, $u:expr, errs) => {
        #[kani::proof]
        #[kani::unwind($u)]
        fn $name() {
            let mut b = static_bytes::<$n>();
            let r = $ty::decode(&mut b);
            assert!(r.is_err());
        }
    };
}
total!(c07_client_hello_0, ClientHello, 0, 32, errs);
total!(c07_client_hello_33, ClientHello, 33, 36, errs);
total!(c07_client_hello_34, ClientHello, 34, 37, errs);
total!(c07_server_hello_0, ServerHello, 0, 32, errs);
total!(c07_server_hello_34, ServerHello, 34, 37, errs);
total!(c07_server_hello_35, ServerHello, 35, 38, errs);
total!(c07_server_hello_38, ServerHello, 38, 41);
total!(c07_server_hello_42, ServerHello, 42, 45);
total!(c07_hvr_0, HelloVerifyRequest, 0, 6, errs);
total!(c07_hvr_2, HelloVerifyRequest, 2, 6, errs);
total!(c07_hvr_3, HelloVerifyRequest, 3, 6);
total!(c07_hvr_8, HelloVerifyRequest, 8, 11);
total!(c07_ske_0, ServerKeyExchange, 0, 6, errs);
total!(c07_ske_3, ServerKeyExchange, 3, 6, errs);
total!(c07_ske_4, ServerKeyExchange, 4, 7, errs);
total!(c07_ske_8, ServerKeyExchange, 8, 11);
total!(c07_ske_12, ServerKeyExchange, 12, 15);
total!(c07_cert_0, CertificateMessage, 0, 6, errs);
total!(c07_cert_2, CertificateMessage, 2, 6, errs);
total!(c07_cert_3, CertificateMessage, 3, 6);
total!(c07_cert_10, CertificateMessage, 10, 13);
total!(c07_cke_0, ClientKeyExchange, 0, 6, errs);
total!(c07_cke_1, ClientKeyExchange, 1, 6);
total!(c07_cke_6, ClientKeyExchange, 6, 9);
total!(c07_finished_12, Finished, 12, 15);

macro_rules! total_opt {
    ($name:ident, $ty:ident, $n:expr) => {
        #[kani::proof]
        #[kani::unwind(20)]
        fn $name() {
            let mut b = static_bytes::<$n>();
            let r = $ty::decode(&mut b);
            core::mem::forget(r);
        }
    };
}
total_opt!(c07_hs_msg_0, HandshakeMessage, 0);
total_opt!(c07_hs_msg_11, HandshakeMessage, 11);
total_opt!(c07_hs_msg_12, HandshakeMessage, 12);
total_opt!(c07_hs_msg_16, HandshakeMessage, 16);

/// canary: "ServerHello::decode never succeeds on 38 bytes" is false — must FAIL
#[kani::proof]
#[kani::unwind(41)]
fn canary_server_hello_38_always_err() {
    let mut b = static_bytes::<38>();
    let r = ServerHello::decode(&mut b);
    let e = r.is_err();
    core::mem::forget(r);
    assert!(e);
}
