// Harnesses for src/transports/dtls/handshake.rs (C07, bounded): every byte string of the stated
// length through each handshake-body decoder; Kani checks every index, slice, arithmetic
// operation, unwrap and `bytes` cursor advance. One harness per concrete length.

macro_rules! total {
    ($name:ident, $ty:ident, $n:expr, $u:expr) => {
        #[kani::proof]
        #[kani::unwind($u)]
        fn $name() {
            let mut b = static_bytes::<$n>();
            let r = $ty::decode(&mut b);
            kani::cover!(r.is_ok());
            core::mem::forget(r);
        }
    };
    ($name:ident, $ty:ident, $n:expr, $u:expr, errs) => {
        #[kani::proof]
        #[kani::unwind($u)]
        fn $name() {
            let mut b = static_bytes::<$n>();
            let r = $ty::decode(&mut b);
            assert!(r.is_err());
        }
    };
}
total!(c07_client_hello_0, ClientHello, 0, 32, errs);
total!(c07_client_hello_33, ClientHello, 33, 36, errs);
total!(c07_client_hello_34, ClientHello, 34, 37, errs);
total!(c07_server_hello_0, ServerHello, 0, 32, errs);
total!(c07_server_hello_34, ServerHello, 34, 37, errs);
total!(c07_server_hello_35, ServerHello, 35, 38, errs);
total!(c07_server_hello_38, ServerHello, 38, 41);
total!(c07_server_hello_42, ServerHello, 42, 45);
total!(c07_hvr_0, HelloVerifyRequest, 0, 6, errs);
total!(c07_hvr_2, HelloVerifyRequest, 2, 6, errs);
total!(c07_hvr_3, HelloVerifyRequest, 3, 6);
total!(c07_hvr_8, HelloVerifyRequest, 8, 11);
total!(c07_ske_0, ServerKeyExchange, 0, 6, errs);
total!(c07_ske_3, ServerKeyExchange, 3, 6, errs);
total!(c07_ske_4, ServerKeyExchange, 4, 7, errs);
total!(c07_ske_8, ServerKeyExchange, 8, 11);
total!(c07_ske_12, ServerKeyExchange, 12, 15);
total!(c07_cert_0, CertificateMessage, 0, 6, errs);
total!(c07_cert_2, CertificateMessage, 2, 6, errs);
total!(c07_cert_3, CertificateMessage, 3, 6);
total!(c07_cert_10, CertificateMessage, 10, 13);
total!(c07_cke_0, ClientKeyExchange, 0, 6, errs);
total!(c07_cke_1, ClientKeyExchange, 1, 6);
total!(c07_cke_6, ClientKeyExchange, 6, 9);
total!(c07_finished_12, Finished, 12, 15);

macro_rules! total_opt {
    ($name:ident, $ty:ident, $n:expr) => {
        #[kani::proof]
        #[kani::unwind(20)]
        fn $name() {
            let mut b = static_bytes::<$n>();
            let r = $ty::decode(&mut b);
            core::mem::forget(r);
        }
    };
}
total_opt!(c07_hs_msg_0, HandshakeMessage, 0);
total_opt!(c07_hs_msg_11, HandshakeMessage, 11);
total_opt!(c07_hs_msg_12, HandshakeMessage, 12);
total_opt!(c07_hs_msg_16, HandshakeMessage, 16);

/// canary: "ServerHello::decode never succeeds on 38 bytes" is false — must FAIL
#[kani::proof]
#[kani::unwind(41)]
fn canary_server_hello_38_always_err() {
    let mut b = static_bytes::<38>();
    let r = ServerHello::decode(&mut b);
    let e = r.is_err();
    core::mem::forget(r);
    assert!(e);
}

// ---- success paths with literal framing octets (all other bytes symbolic)
/// ClientHello: version, random, empty session id, empty cookie, one cipher suite, one compression
/// method, no extensions — every field recovered, buffer consumed
#[kani::proof]
#[kani::unwind(32)]
fn c07_client_hello_fields_literal_42() {
    let mut a: [u8; 42] = kani::any();
    a[34] = 0; a[35] = 0; a[36] = 0; a[37] = 2; a[40] = 1;   // sid_len = 0, cookie_len = 0, cipher_suites_len = 2, compression_len = 1 (a[38..40] = suite)
    let mut b = static_bytes_of(a);
    let h = ClientHello::decode(&mut b).unwrap();
    assert!(h.version.major == a[0] && h.version.minor == a[1]);
    assert!(h.random.gmt_unix_time == u32::from_be_bytes([a[2], a[3], a[4], a[5]]) && h.random.random_bytes[..] == a[6..34]);
    assert!(h.session_id.is_empty() && h.cookie.is_empty());
    assert!(h.cipher_suites.len() == 1 && h.cipher_suites[0] == u16::from_be_bytes([a[38], a[39]]));
    assert!(h.compression_methods.len() == 1 && h.compression_methods[0] == a[41] && h.extensions.is_empty() && b.is_empty());
    core::mem::forget(h);
}
/// HandshakeMessage::decode header fields (RFC 6347 4.2.2): 24-bit length / fragment offset / fragment length
#[kani::proof]
#[kani::unwind(20)]
fn c07_hs_msg_fields_14() {
    let mut a: [u8; 14] = kani::any();
    a[9] = 0; a[10] = 0; a[11] = 2;   // fragment_length = 2 (literal so that split_to is concrete)
    let mut b = static_bytes_of(a);
    match HandshakeMessage::decode(&mut b) {
        Ok(Some(m)) => {
            assert!(m.msg_type as u8 == a[0]);
            assert!(m.total_length == u32::from_be_bytes([0, a[1], a[2], a[3]]) && m.message_seq == u16::from_be_bytes([a[4], a[5]]));
            assert!(m.fragment_offset == u32::from_be_bytes([0, a[6], a[7], a[8]]) && m.fragment_length == 2);
            assert!(m.body[..] == a[12..14] && b.is_empty());
            kani::cover!(true);
            core::mem::forget(m);
        }
        Ok(None) => assert!(false),
        Err(_) => {}
    }
}
