// Harnesses for src/transports/ice/shared_tcp.rs (C07: the STUN USERNAME scanner that runs on every
// packet of the shared-port demultiplexer, before any authentication)

#[kani::proof]
#[kani::unwind(8)]
fn c07_username_from_stun_short() {
    let b: [u8; 19] = kani::any();
    assert!(username_from_stun_bytes(&b).is_none() && peer_ufrag_from_binding_request(&b).is_none());
}
// (a literal Binding request with USERNAME "ab:cd" through peer_ufrag_from_binding_request runs CBMC out of
// memory — str::from_utf8 + split_once + to_string; the 24-byte fully symbolic scan times out at 600 s.)
/// an attribute length running past the datagram ends the scan (no panic, no result)
#[kani::proof]
#[kani::unwind(10)]
fn c07_username_len_past_end_literal() {
    let tx: [u8; 12] = kani::any();
    let l: u8 = kani::any();
    kani::assume(l >= 9);
    let m: [u8; 32] = [0x00, 0x01, 0x00, 0x0c, 0x21, 0x12, 0xA4, 0x42,
        tx[0], tx[1], tx[2], tx[3], tx[4], tx[5], tx[6], tx[7], tx[8], tx[9], tx[10], tx[11],
        0x00, 0x06, 0x00, l, b'a', b'b', b':', b'c', b'd', 0, 0, 0];
    assert!(username_from_stun_bytes(&m).is_none());
}
