// Harnesses for src/rtp.rs (C15 inverse laws, C07 totality). Injected as `mod verif_kani`.
// Spec side is written from RFC 3550 / 4585 / 5104 / draft-alvestrand-rmcat-remb / RFC 8285.

fn any_report_block() -> ReportBlock {
    ReportBlock { ssrc: kani::any(), fraction_lost: kani::any(), packets_lost: kani::any(), highest_sequence: kani::any(),
                  jitter: kani::any(), last_sender_report: kani::any(), delay_since_last_sender_report: kani::any() }
}

// ---------------------------------------------------------------- report block (RFC 3550 6.4.1)
/// in-place contract predicate for build_report_block: RFC 3550 6.4.1 layout, 24-bit two's
/// complement cumulative loss, clamped to the representable range
pub(crate) fn post_build_report_block(b: &ReportBlock, o: &[u8; 24]) -> bool {
    let lost = if b.packets_lost > 0x7F_FFFF { 0x7F_FFFF } else if b.packets_lost < -0x80_0000 { -0x80_0000 } else { b.packets_lost };
    let l = (lost as u32) & 0xFF_FFFF;
    o[0..4] == b.ssrc.to_be_bytes() && o[4] == b.fraction_lost
        && o[5] == (l >> 16) as u8 && o[6] == (l >> 8) as u8 && o[7] == l as u8
        && o[8..12] == b.highest_sequence.to_be_bytes() && o[12..16] == b.jitter.to_be_bytes()
        && o[16..20] == b.last_sender_report.to_be_bytes() && o[20..24] == b.delay_since_last_sender_report.to_be_bytes()
}
#[kani::proof_for_contract(build_report_block)]
fn c15_build_report_block_contract() {
    let b = any_report_block();
    let o = build_report_block(&b);
    assert!(post_build_report_block(&b, &o));
}
/// parse_report_block(build_report_block(b)) == b whenever the loss count is representable, and the
/// sign extension is right for EVERY 24-bit pattern
#[kani::proof]
fn c15_report_block_inverse() {
    let b = any_report_block();
    let o = build_report_block(&b);
    let p = parse_report_block(&o);
    if b.packets_lost >= -(1 << 23) && b.packets_lost < (1 << 23) { assert!(p == b); }
    else { assert!(p.packets_lost == if b.packets_lost < 0 { -(1 << 23) } else { (1 << 23) - 1 }); }
    let raw: [u8; 24] = kani::any();
    let q = parse_report_block(&raw);
    let v = ((raw[5] as i32) << 16) | ((raw[6] as i32) << 8) | raw[7] as i32;
    assert!(q.packets_lost == if v >= (1 << 23) { v - (1 << 24) } else { v });
    assert!(build_report_block(&q) == raw);
}
#[kani::proof]
fn canary_report_block_unclamped() {
    let b = any_report_block();
    assert!(parse_report_block(&build_report_block(&b)) == b);
}

// ---------------------------------------------------------------- REMB
/// build_remb_body ∘ parse_remb_body for EVERY u64 bitrate: exponent <= 63, mantissa < 2^18,
/// exact when the value has <= 18 significant bits, otherwise the decoded value is the input
/// with its low `exp` bits cleared (within one unit of the last place)
#[kani::proof]
#[kani::unwind(48)]
fn c15_remb_bitrate_roundtrip() {
    let br: u64 = kani::any();
    let r = RemoteBitrateEstimate { sender_ssrc: kani::any(), bitrate_bps: br, ssrcs: Vec::new() };
    let body = build_remb_body(&r).unwrap();
    assert!(body.len() == 16 && body[8..12] == *b"REMB" && body[12] == 0 && body[4..8] == [0, 0, 0, 0]);
    let exp = (body[13] >> 2) as u32;
    let mant = (((body[13] & 3) as u64) << 16) | ((body[14] as u64) << 8) | body[15] as u64;
    assert!(exp <= 63 && mant < (1 << 18));           // 6-bit exponent, 18-bit mantissa
    if br < (1 << 18) { assert!(mant << exp == br); } // representable values are exact
    let p = parse_remb_body(&body).unwrap();
    assert!(p.sender_ssrc == r.sender_ssrc && p.ssrcs.is_empty());
    assert!(p.bitrate_bps == (br >> exp) << exp);
    assert!(p.bitrate_bps <= br && br - p.bitrate_bps < (1u64 << exp));
}
#[kani::proof]
#[kani::unwind(48)]
fn c15_remb_ssrc_list_2() {
    let r = RemoteBitrateEstimate { sender_ssrc: kani::any(), bitrate_bps: kani::any::<u32>() as u64 & 0x3FFFF, ssrcs: vec![kani::any(), kani::any()] };
    let body = build_remb_body(&r).unwrap();
    assert!(body.len() == 24 && body[12] == 2);
    let p = parse_remb_body(&body).unwrap();
    assert!(p == r);
}

// ---------------------------------------------------------------- SR / RR
fn any_sr(n: usize) -> SenderReport {
    let mut v = Vec::new();
    let mut i = 0;
    while i < n { let mut b = any_report_block(); b.packets_lost = (b.packets_lost << 8) >> 8; v.push(b); i += 1; }
    SenderReport { sender_ssrc: kani::any(), ntp_most: kani::any(), ntp_least: kani::any(), rtp_timestamp: kani::any(),
                   packet_count: kani::any(), octet_count: kani::any(), report_blocks: v }
}
#[kani::proof]
#[kani::unwind(6)]
fn c15_sender_report_roundtrip_1() {
    let sr = any_sr(1);
    let body = build_sender_report_body(&sr).unwrap();
    assert!(body.len() == 48);
    let p = parse_sender_report(1, &body).unwrap();
    assert!(p == sr);
}
#[kani::proof]
#[kani::unwind(6)]
fn c15_sender_report_roundtrip_0() {
    let sr = any_sr(0);
    let body = build_sender_report_body(&sr).unwrap();
    assert!(body.len() == 24 && body[0..4] == sr.sender_ssrc.to_be_bytes() && body[20..24] == sr.octet_count.to_be_bytes());
    assert!(parse_sender_report(0, &body).unwrap() == sr);
}
#[kani::proof]
#[kani::unwind(6)]
fn c15_receiver_report_roundtrip_1() {
    let mut b = any_report_block(); b.packets_lost = (b.packets_lost << 8) >> 8;
    let rr = ReceiverReport { sender_ssrc: kani::any(), report_blocks: vec![b] };
    let body = build_receiver_report_body(&rr).unwrap();
    assert!(body.len() == 28);
    assert!(parse_receiver_report(1, &body).unwrap() == rr);
}

// ---------------------------------------------------------------- PLI / FIR / TWCC
#[kani::proof]
fn c15_pli_roundtrip() {
    let (s, m): (u32, u32) = (kani::any(), kani::any());
    let body = build_psfb_common(s, m);
    assert!(body.len() == 8 && body[0..4] == s.to_be_bytes() && body[4..8] == m.to_be_bytes());
    let p = parse_psfb_common(&body).unwrap();
    assert!(p.sender_ssrc == s && p.media_ssrc == m);
}
#[kani::proof]
#[kani::unwind(6)]
fn c15_fir_roundtrip_2() {
    let f = FullIntraRequest { sender_ssrc: kani::any(), requests: vec![
        FirRequest { ssrc: kani::any(), sequence_number: kani::any() }, FirRequest { ssrc: kani::any(), sequence_number: kani::any() }] };
    let body = build_fir_body(&f);
    assert!(body.len() == 24 && body[4..8] == [0; 4] && body[13..16] == [0; 3]);
    assert!(parse_fir_body(&body).unwrap() == f);
}
#[kani::proof]
#[kani::unwind(8)]
fn c15_twcc_roundtrip_4() {
    let pl: [u8; 4] = kani::any();
    let t = TransportWideCc { sender_ssrc: kani::any(), media_ssrc: kani::any(), base_sequence: kani::any(), packet_status_count: kani::any(),
        reference_time_64ms: kani::any::<u32>() & 0xFF_FFFF, feedback_packet_count: kani::any(), payload: pl.to_vec() };
    let body = build_twcc_body(&t);
    assert!(body.len() == 20);
    assert!(body[12] == (t.reference_time_64ms >> 16) as u8 && body[15] == t.feedback_packet_count);
    assert!(parse_twcc_body(&body).unwrap() == t);
}

// ---------------------------------------------------------------- NACK (RFC 4585 6.2.1)
/// RFC 4585 6.2.1: a (PID, BLP) pair names PID and PID+i+1 for every set bit i of BLP
fn pair_names(pid: u16, blp: u16, x: u16) -> bool {
    let d = x.wrapping_sub(pid);
    d == 0 || (d >= 1 && d <= 16 && (blp >> (d - 1)) & 1 == 1)
}
fn pairs_name(pairs: &[(u16, u16)], x: u16) -> bool {
    let mut k = 0; while k < pairs.len() { if pair_names(pairs[k].0, pairs[k].1, x) { return true; } k += 1; } false
}
fn contains(v: &[u16], x: u16) -> bool { let mut i = 0; while i < v.len() { if v[i] == x { return true; } i += 1; } false }
/// pack_nack_pairs: the SET of sequence numbers named by the pairs equals the input set — every
/// input is named, and ANY u16 that is named was in the input (also across 65535 -> 0)
fn nack_obligation<const N: usize>() {
    let seqs: [u16; N] = kani::any();
    let pairs = pack_nack_pairs(&seqs);
    assert!(pairs.len() >= 1 && pairs.len() <= N);
    let mut i = 0;
    while i < N { assert!(pairs_name(&pairs, seqs[i])); i += 1; }
    let x: u16 = kani::any();
    if pairs_name(&pairs, x) { assert!(contains(&seqs, x)); }
    core::mem::forget(pairs);
}
/// stand-in for std's sort_unstable (pattern-defeating quicksort does not finish in CBMC):
/// assumed contract of the dependency = "sorts ascending"; this insertion sort satisfies it
fn ins_sort_u16<T: Ord>(v: &mut [T]) {
    let mut i = 1;
    while i < v.len() {
        let mut j = i;
        while j > 0 && v[j - 1] > v[j] { v.swap(j - 1, j); j -= 1; }
        i += 1;
    }
}
/// stand-in for Vec::dedup (std's version walks raw pointers under a drop guard)
fn simple_dedup<T: PartialEq, A: core::alloc::Allocator>(v: &mut Vec<T, A>) {
    let mut i = 1;
    while i < v.len() { if v[i] == v[i - 1] { v.remove(i); } else { i += 1; } }
}
#[kani::proof]
#[kani::unwind(5)]
#[kani::stub(<[u16]>::sort_unstable, ins_sort_u16)]
#[kani::stub(std::vec::Vec::<u16>::dedup, simple_dedup)]
fn c15_nack_set_preserved_2() { nack_obligation::<2>(); }
#[kani::proof]
#[kani::unwind(6)]
#[kani::stub(<[u16]>::sort_unstable, ins_sort_u16)]
#[kani::stub(std::vec::Vec::<u16>::dedup, simple_dedup)]
fn c15_nack_set_preserved_3() { nack_obligation::<3>(); }
#[kani::proof]
#[kani::unwind(7)]
#[kani::stub(<[u16]>::sort_unstable, ins_sort_u16)]
#[kani::stub(std::vec::Vec::<u16>::dedup, simple_dedup)]
fn c15_nack_set_preserved_4() { nack_obligation::<4>(); }
// ---------------------------------------------------------------- framing
/// write_rtcp_packet: V=2, P=0, 5-bit count, body padded to 32 bits, length == words-1
fn framing_obligation<const N: usize>() {
    let body: [u8; N] = kani::any();
    let (fmt, pt): (u8, u8) = (kani::any(), kani::any());
    let mut out = Vec::new();
    write_rtcp_packet(&mut out, fmt, pt, body.to_vec());
    let padded = (N + 3) / 4 * 4;
    assert!(out.len() == 4 + padded);
    assert!(out[0] == 0x80 | (fmt & 0x1F) && out[1] == pt);
    assert!(u16::from_be_bytes([out[2], out[3]]) as usize == out.len() / 4 - 1);
    assert!(out[4..4 + N] == body[..]);
    let mut i = 4 + N; while i < out.len() { assert!(out[i] == 0); i += 1; }
}
#[kani::proof]
#[kani::unwind(12)]
fn c15_write_rtcp_packet_5() { framing_obligation::<5>(); }
#[kani::proof]
#[kani::unwind(12)]
fn c15_write_rtcp_packet_8() { framing_obligation::<8>(); }
#[kani::proof]
#[kani::unwind(12)]
fn c15_write_rtcp_packet_0() { framing_obligation::<0>(); }

#[kani::proof]
fn c15_is_rtcp_range() {
    let p: [u8; 2] = kani::any();
    assert!(is_rtcp(&p) == (p[1] >= 192 && p[1] <= 208));
    assert!(!is_rtcp(&p[..1]) && !is_rtcp(&p[..0]));
}

// ---------------------------------------------------------------- RTP header (RFC 3550 5.1)
fn any_header(ncsrc: usize, ext: Option<RtpHeaderExtension>) -> RtpHeader {
    let mut h = RtpHeader::new(kani::any::<u8>() & 0x7F, kani::any(), kani::any(), kani::any());
    h.marker = kani::any();
    let mut i = 0; while i < ncsrc { h.csrcs.push(kani::any()); i += 1; }
    h.extension = ext;
    h
}
#[kani::proof]
#[kani::unwind(8)]
fn c15_header_write_to_layout_csrc2() {
    let h = any_header(2, None);
    let pad: bool = kani::any();
    assert!(h.encoded_len() == 20 && h.validate().is_ok());
    let mut o = [0u8; 20];
    h.write_to(pad, &mut o[..]);
    assert!(o[0] == 0x80 | (if pad { 0x20 } else { 0 }) | 2);
    assert!(o[1] == (if h.marker { 0x80 } else { 0 }) | h.payload_type);
    assert!(o[2..4] == h.sequence_number.to_be_bytes() && o[4..8] == h.timestamp.to_be_bytes() && o[8..12] == h.ssrc.to_be_bytes());
    assert!(o[12..16] == h.csrcs[0].to_be_bytes() && o[16..20] == h.csrcs[1].to_be_bytes());
}
#[kani::proof]
#[kani::unwind(12)]
fn c15_header_write_to_layout_ext8() {
    let e: [u8; 8] = kani::any();
    let profile: u16 = kani::any();
    let h = any_header(0, Some(RtpHeaderExtension { profile, data: static_bytes_of(e) }));
    assert!(h.encoded_len() == 24 && h.validate().is_ok());
    let mut o = [0u8; 24];
    h.write_to(false, &mut o[..]);
    assert!(o[0] == 0x90 && o[12..14] == profile.to_be_bytes() && o[14..16] == [0, 2] && o[16..24] == e);
    core::mem::forget(h);
}
#[kani::proof]
#[kani::unwind(20)]
fn c15_header_validate_exact() {
    let n: usize = kani::any();
    kani::assume(n <= 17);
    let mut h = RtpHeader::new(96, 0, 0, 0);
    let mut i = 0; while i < n { h.csrcs.push(0); i += 1; }
    assert!(h.validate().is_ok() == (n <= 15));
    let mut g = RtpHeader::new(96, 0, 0, 0);
    let e: [u8; 7] = kani::any();
    let l: usize = kani::any(); kani::assume(l <= 7);
    let sb = static_bytes_of(e);
    g.extension = Some(RtpHeaderExtension { profile: kani::any(), data: sb.slice(0..l) });
    assert!(g.validate().is_ok() == (l % 4 == 0));
    core::mem::forget(g);
}

// ---------------------------------------------------------------- header extensions (RFC 8285)
/// one-byte form: get_extension returns exactly the element's bytes and never reads past the block
fn get_ext_onebyte_obligation<const N: usize>() {
    let e: [u8; N] = kani::any();
    let h = any_header(0, Some(RtpHeaderExtension { profile: 0xBEDE, data: static_bytes_of(e) }));
    let id: u8 = kani::any();
    kani::assume(id >= 1 && id <= 14);
    let r = h.get_extension(id);
    // reference walk written from RFC 8285 4.2
    let mut off = 0usize; let mut want: Option<(usize, usize)> = None; let mut dead = false;
    while off < N {
        let b = e[off];
        if b == 0 { off += 1; continue; }
        let (eid, len) = (b >> 4, (b & 0x0F) as usize + 1);
        off += 1;
        if eid == 15 { break; }
        if eid == id { if off + len <= N { want = Some((off, len)); } else { dead = true; } break; }
        off += len;
    }
    match (r, want) {
        (Some(v), Some((o, l))) => { assert!(!dead && v.len() == l && v[..] == e[o..o + l]); kani::cover!(true); core::mem::forget(v); }
        (None, None) => {}
        _ => assert!(false),
    }
    core::mem::forget(h);
}
#[kani::proof]
#[kani::unwind(14)]
fn c15_get_extension_onebyte_8() { get_ext_onebyte_obligation::<8>(); }
#[kani::proof]
#[kani::unwind(18)]
fn c15_get_extension_onebyte_12() { get_ext_onebyte_obligation::<12>(); }

fn get_ext_twobyte_obligation<const N: usize>() {
    let e: [u8; N] = kani::any();
    let h = any_header(0, Some(RtpHeaderExtension { profile: 0x1000, data: static_bytes_of(e) }));
    let id: u8 = kani::any();
    kani::assume(id >= 1);
    let r = h.get_extension(id);
    let mut off = 0usize; let mut want: Option<(usize, usize)> = None;
    while off < N {
        let eid = e[off];
        if eid == 0 { off += 1; continue; }
        off += 1;
        if off >= N { break; }
        let len = e[off] as usize; off += 1;
        if eid == id { if off + len <= N { want = Some((off, len)); } break; }
        off += len;
    }
    match (r, want) {
        (Some(v), Some((o, l))) => { assert!(v.len() == l && v[..] == e[o..o + l]); kani::cover!(true); core::mem::forget(v); }
        (None, None) => {}
        _ => assert!(false),
    }
    core::mem::forget(h);
}
#[kani::proof]
#[kani::unwind(14)]
fn c15_get_extension_twobyte_8() { get_ext_twobyte_obligation::<8>(); }

/// well-formedness of a received one-byte-header block: every element fits (RFC 8285 4.2)
fn onebyte_block_wf<const N: usize>(e: &[u8; N]) -> bool {
    let mut off = 0usize;
    while off < N {
        let b = e[off];
        if b == 0 { off += 1; continue; }
        let len = (b & 0x0F) as usize + 1; off += 1;
        if b >> 4 == 15 { break; }
        if off + len > N { return false; }
        off += len;
    }
    true
}
/// set then get on a well-formed received block: get(id) == Some(d), block stays 32-bit aligned (C15)
fn set_get_obligation<const N: usize>() {
    let e: [u8; N] = kani::any();
    kani::assume(onebyte_block_wf(&e));
    let mut h = any_header(0, Some(RtpHeaderExtension { profile: 0xBEDE, data: static_bytes_of(e) }));
    let id: u8 = kani::any();
    kani::assume(id >= 1 && id <= 14);
    let d: [u8; 2] = kani::any();
    let r = h.set_extension(id, &d);
    assert!(r.is_ok());
    let ext = h.extension.as_ref().unwrap();
    assert!(ext.data.len() % 4 == 0 && ext.profile == 0xBEDE);
    let g = h.get_extension(id).unwrap();
    assert!(g[..] == d[..]);
    core::mem::forget(g); core::mem::forget(h);
}
/// ... and every OTHER id reads back unchanged
fn set_keeps_others_obligation<const N: usize>() {
    let e: [u8; N] = kani::any();
    kani::assume(onebyte_block_wf(&e));
    let mut h = any_header(0, Some(RtpHeaderExtension { profile: 0xBEDE, data: static_bytes_of(e) }));
    let (id, other): (u8, u8) = (kani::any(), kani::any());
    kani::assume(id >= 1 && id <= 14 && other >= 1 && other <= 14 && other != id);
    let mut before = [0u8; 17];
    if let Some(b) = h.get_extension(other) { before[0] = b.len() as u8; before[1..1 + b.len()].copy_from_slice(&b); }
    let d: [u8; 1] = kani::any();
    let _ = h.set_extension(id, &d);
    let mut after = [0u8; 17];
    if let Some(b) = h.get_extension(other) { after[0] = b.len() as u8; after[1..1 + b.len()].copy_from_slice(&b); core::mem::forget(b); }
    assert!(before == after);
    kani::cover!(before[0] != 0);
    core::mem::forget(h);
}
/// on ANY received block (well-formed or not) set_extension is total (C07)
fn set_total_obligation<const N: usize>() {
    let e: [u8; N] = kani::any();
    let mut h = any_header(0, Some(RtpHeaderExtension { profile: 0xBEDE, data: static_bytes_of(e) }));
    let id: u8 = kani::any();
    let d: [u8; 2] = kani::any();
    let r = h.set_extension(id, &d);
    if !onebyte_block_wf(&e) && id >= 1 && id <= 14 { kani::cover!(r.is_err()); }
    core::mem::forget(r); core::mem::forget(h);
}
/// the common case: stamping the first extension on a header that has none
#[kani::proof]
#[kani::unwind(8)]
fn c15_set_get_extension_fresh() {
    let mut h = any_header(0, None);
    let id: u8 = kani::any();
    kani::assume(id >= 1 && id <= 14);
    let d: [u8; 3] = kani::any();
    assert!(h.set_extension(id, &d).is_ok());
    {
        let ext = h.extension.as_ref().unwrap();
        assert!(ext.profile == 0xBEDE && ext.data.len() % 4 == 0 && ext.data.len() >= 4);
    }
    let g = h.get_extension(id).unwrap();
    assert!(g[..] == d[..]);
    assert!(h.validate().is_ok());
    core::mem::forget(g); core::mem::forget(h);
}
/// stamping next to / over an existing element (received block with literal framing octets,
/// symbolic values): the other element is preserved byte for byte, the block is re-padded
#[kani::proof]
#[kani::unwind(10)]
fn c15_set_extension_existing_literal() {
    let (v, w): (u8, u8) = (kani::any(), kani::any());
    // received block: id 1 (1 byte) = v, id 3 (1 byte) = w  -> 10 v 30 w
    let mut h = any_header(0, Some(RtpHeaderExtension { profile: 0xBEDE, data: static_bytes_of([0x10, v, 0x30, w]) }));
    let d: [u8; 2] = kani::any();
    // (a) add id 2 (2 bytes): the others read back unchanged (element order / padding placement is free, RFC 8285)
    assert!(h.set_extension(2, &d).is_ok());
    {
        let (a1, a2, a3) = (h.get_extension(1).unwrap(), h.get_extension(2).unwrap(), h.get_extension(3).unwrap());
        assert!(a1[..] == [v] && a2[..] == d[..] && a3[..] == [w] && h.extension.as_ref().unwrap().data.len() % 4 == 0);
        core::mem::forget(a1); core::mem::forget(a2); core::mem::forget(a3);
    }
    // (b) replace id 1 by a 2-byte value
    assert!(h.set_extension(1, &d).is_ok());
    assert!(h.extension.as_ref().unwrap().data.len() % 4 == 0 && h.extension.as_ref().unwrap().profile == 0xBEDE);
    let g1 = h.get_extension(1).unwrap(); let g2 = h.get_extension(2).unwrap(); let g3 = h.get_extension(3).unwrap();
    assert!(g1[..] == d[..] && g2[..] == d[..] && g3[..] == [w]);
    assert!(h.get_extension(4).is_none() && h.validate().is_ok());
    core::mem::forget(g1); core::mem::forget(g2); core::mem::forget(g3); core::mem::forget(h);
}
/// invalid arguments are rejected and leave the header untouched
#[kani::proof]
#[kani::unwind(8)]
fn c15_set_extension_rejects_bad_args() {
    let mut h = any_header(0, None);
    let id: u8 = kani::any();
    kani::assume(id == 0 || id >= 15);
    assert!(h.set_extension(id, &[1, 2]).is_err() && h.extension.is_none());
    assert!(h.set_extension(3, &[]).is_err() && h.extension.is_none());
    assert!(h.set_extension(3, &[0u8; 17]).is_err() && h.extension.is_none());
}
#[kani::proof]
#[kani::unwind(12)]
fn c07_set_extension_total_4() { set_total_obligation::<4>(); }

// ---------------------------------------------------------------- C07: totality of the RTCP sub-parsers
macro_rules! sub_total {
    ($name:ident, $f:ident, $n:expr) => {
        #[kani::proof]
        #[kani::unwind(34)]
        fn $name() {
            let body: [u8; $n] = kani::any();
            let r = $f(kani::any::<u8>() & 0x1F, &body);
            core::mem::forget(r);
        }
    };
    ($name:ident, $f:ident, $n:expr, nofmt) => {
        #[kani::proof]
        #[kani::unwind(20)]
        fn $name() {
            let body: [u8; $n] = kani::any();
            let r = $f(&body);
            core::mem::forget(r);
        }
    };
}
sub_total!(c07_parse_sr_0, parse_sender_report, 0);
sub_total!(c07_parse_sr_24, parse_sender_report, 24);
sub_total!(c07_parse_sr_52, parse_sender_report, 52);
sub_total!(c07_parse_rr_3, parse_receiver_report, 3);
sub_total!(c07_parse_rr_28, parse_receiver_report, 28);
sub_total!(c07_parse_rtpfb_16, parse_rtcp_rtpfb, 16);
sub_total!(c07_parse_psfb_16, parse_rtcp_psfb, 16);
sub_total!(c07_parse_psfb_24, parse_rtcp_psfb, 24);
sub_total!(c07_parse_nack_7, parse_nack_body, 7, nofmt);
sub_total!(c07_parse_nack_16, parse_nack_body, 16, nofmt);
sub_total!(c07_parse_remb_15, parse_remb_body, 15, nofmt);
sub_total!(c07_parse_remb_24, parse_remb_body, 24, nofmt);
sub_total!(c07_parse_twcc_15, parse_twcc_body, 15, nofmt);
sub_total!(c07_parse_twcc_20, parse_twcc_body, 20, nofmt);
sub_total!(c07_parse_fir_7, parse_fir_body, 7, nofmt);
sub_total!(c07_parse_fir_24, parse_fir_body, 24, nofmt);

// ---------------------------------------------------------------- SDES / BYE text items (RFC 3550 6.5, 6.6)
/// build_sdes_body: the one-octet item length always equals the number of text bytes that
/// follow it (otherwise the parser mis-frames everything after the item), chunk padded to 32 bits
const A300: &str = "aaaaaaaaaaaaaaaaaaaaaaaaaaaaaaaaaaaaaaaaaaaaaaaaaaaaaaaaaaaaaaaaaaaaaaaaaaaaaaaaaaaaaaaaaaaaaaaaaaaaaaaaaaaaaaaaaaaaaaaaaaaaaaaaaaaaaaaaaaaaaaaaaaaaaaaaaaaaaaaaaaaaaaaaaaaaaaaaaaaaaaaaaaaaaaaaaaaaaaaaaaaaaaaaaaaaaaaaaaaaaaaaaaaaaaaaaaaaaaaaaaaaaaaaaaaaaaaaaaaaaaaaaaaaaaaaaaaaaaaaaaaaaaaaaaaaaaaaaaaaaaaaaaaaaaaaaaaa";
fn sdes_len_obligation<const L: usize>() {
    let text = A300[..L].to_string();
    let (ssrc, ty): (u32, u8) = (kani::any(), kani::any());
    kani::assume(ty != 0);
    let s = SourceDescription { chunks: vec![SdesChunk { ssrc, items: vec![SdesItem { ty, text }] }] };
    let body = build_sdes_body(&s);
    let n = body[5] as usize;
    assert!(body[0..4] == ssrc.to_be_bytes() && body[4] == ty);
    assert!(n == if L > 255 { 255 } else { L });
    // item bytes, then the terminating zero item and padding to a 32-bit boundary
    assert!(body.len() == (4 + 2 + n + 1 + 3) / 4 * 4);
    let mut i = 6 + n; while i < body.len() { assert!(body[i] == 0); i += 1; }
    core::mem::forget(s);
}
#[kani::proof]
#[kani::unwind(12)]
fn c15_sdes_item_length_2() { sdes_len_obligation::<2>(); }
#[kani::proof]
#[kani::unwind(12)]
fn c15_sdes_item_length_3() { sdes_len_obligation::<3>(); }
#[kani::proof]
#[kani::unwind(12)]
fn c15_sdes_item_length_4() { sdes_len_obligation::<4>(); }
#[kani::proof]
#[kani::unwind(12)]
fn c15_sdes_item_length_5() { sdes_len_obligation::<5>(); }
/// two chunks: the second chunk starts right after the first one's terminator/padding and the
/// crate's own parser recovers both (chunk framing law for every alignment residue of the first)
fn sdes_two_chunks_obligation<const L: usize>() {
    let t1 = A300[..L].to_string();
    let t2 = "b".to_string();
    let (s1, s2): (u32, u32) = (kani::any(), kani::any());
    let s = SourceDescription { chunks: vec![
        SdesChunk { ssrc: s1, items: vec![SdesItem { ty: 1, text: t1 }] },
        SdesChunk { ssrc: s2, items: vec![SdesItem { ty: 1, text: t2 }] } ] };
    let body = build_sdes_body(&s);
    let first = (4 + 2 + L + 1 + 3) / 4 * 4;
    assert!(body.len() == first + 8);
    assert!(body[first..first + 4] == s2.to_be_bytes() && body[first + 4] == 1 && body[first + 5] == 1 && body[first + 6] == b'b' && body[first + 7] == 0);
    assert!(body[6 + L] == 0);
    core::mem::forget(s);
}
#[kani::proof]
#[kani::unwind(20)]
fn c15_sdes_two_chunks_1() { sdes_two_chunks_obligation::<1>(); }
#[kani::proof]
#[kani::unwind(20)]
fn c15_sdes_two_chunks_2() { sdes_two_chunks_obligation::<2>(); }
#[kani::proof]
#[kani::unwind(20)]
fn c15_sdes_two_chunks_3() { sdes_two_chunks_obligation::<3>(); }
#[kani::proof]
#[kani::unwind(20)]
fn c15_sdes_two_chunks_4() { sdes_two_chunks_obligation::<4>(); }
#[kani::proof]
#[kani::unwind(310)]
fn c15_sdes_item_length_255() { sdes_len_obligation::<255>(); }
#[kani::proof]
#[kani::unwind(310)]
fn c15_sdes_item_length_300() { sdes_len_obligation::<300>(); }
/// same law for the BYE reason
#[kani::proof]
#[kani::unwind(310)]
fn c15_bye_reason_length_300() {
    let reason = A300.to_string();
    let b = Goodbye { sources: vec![kani::any()], reason: Some(reason) };
    let body = build_goodbye_body(&b);
    assert!(body[4] == 255 && body.len() == 4 + 1 + 255);
    core::mem::forget(b);
}


// ---------------------------------------------------------------- compound walker (C07)
// One harness per (length N, packet type): the type octet and the length-in-words field are
// written as constants (one sub-packet of exactly N bytes) so that CBMC's constant propagation
// prunes the other sub-parsers and the second loop iteration; with a symbolic type or length even
// 4 bytes do not finish (every iteration re-enters from_utf8_lossy of the SDES/BYE parsers).
// Version, padding bit, count, body and the padding count octet are symbolic.
macro_rules! walker_total {
    ($name:ident, $n:expr, $pt:expr) => {
        #[kani::proof]
        #[kani::unwind(34)]
        #[kani::stub(tracing::callsite::DefaultCallsite::interest, st_interest)]
        #[kani::stub(tracing::__macro_support::__is_enabled, st_enabled)]
        #[kani::stub(tracing::Event::dispatch, st_dispatch)]
        fn $name() {
            let mut raw: [u8; $n] = kani::any();
            raw[1] = $pt;
            raw[2] = 0;
            raw[3] = ($n / 4 - 1) as u8;
            let r = parse_rtcp_packets(&raw, None);
            kani::cover!(r.is_ok());
            core::mem::forget(r);
        }
    };
}
walker_total!(c07_walker_unknown_4, 4, 0);
walker_total!(c07_walker_unknown_8, 8, 0);
walker_total!(c07_walker_xr_8, 8, 207);
walker_total!(c07_walker_rr_8, 8, 201);
walker_total!(c07_walker_psfb_12, 12, 206);
walker_total!(c07_walker_sr_28, 28, 200);

// ---------------------------------------------------------------- RtpHeader::parse (over &[u8], a cheap Buf)
/// parse(write_to(h)) recovers every field, with a 4-byte extension block (any profile)
#[kani::proof]
#[kani::unwind(8)]
fn c15_header_parse_of_write_ext4() {
    let e: [u8; 4] = kani::any();
    let h = any_header(0, Some(RtpHeaderExtension { profile: kani::any(), data: static_bytes_of(e) }));
    let mut o = [0u8; 20];
    h.write_to(false, &mut o[..]);
    let mut cur: &[u8] = &o[..];
    let (p, pb) = RtpHeader::parse(&mut cur).unwrap();
    assert!(!pb && cur.is_empty());
    assert!(p.marker == h.marker && p.payload_type == h.payload_type && p.sequence_number == h.sequence_number
        && p.timestamp == h.timestamp && p.ssrc == h.ssrc && p.csrcs.is_empty());
    let pe = p.extension.as_ref().unwrap();
    assert!(pe.profile == h.extension.as_ref().unwrap().profile && pe.data[..] == e[..]);
    core::mem::forget(p); core::mem::forget(h);
}
/// C05 / C15: SRTP authenticates the header as RE-MARSHALLED from the parsed struct, so for every header that parse
/// accepts, write_to(parse(raw)) must be raw itself — otherwise two different wire headers (e.g. a flipped version
/// bit) authenticate as one. Every 12-octet header without CSRC list and extension (all other bits symbolic).
#[kani::proof]
#[kani::unwind(14)]
fn c05_header_reencode_is_identity_12() {
    let raw: [u8; 12] = kani::any();
    kani::assume(raw[0] & 0x1F == 0);
    let mut cur: &[u8] = &raw[..];
    if let Ok((h, padding)) = RtpHeader::parse(&mut cur) {
        let mut o = [0u8; 12];
        h.write_to(padding, &mut o[..]);
        assert!(o == raw);
        core::mem::forget(h);
    }
}
/// C07: RtpHeader::parse is total on every byte string of the stated length (CSRC count, X bit,
/// extension length all symbolic)
macro_rules! hdr_total {
    ($name:ident, $n:expr, $u:expr) => {
        #[kani::proof]
        #[kani::unwind($u)]
        fn $name() {
            let raw: [u8; $n] = kani::any();
            let mut cur: &[u8] = &raw[..];
            let r = RtpHeader::parse(&mut cur);
            core::mem::forget(r);
        }
    };
}
hdr_total!(c07_rtp_header_parse_0, 0, 4);
hdr_total!(c07_rtp_header_parse_11, 11, 4);
hdr_total!(c07_rtp_header_parse_12, 12, 6);

// ---------------------------------------------------------------- parse_nack_body semantics (RFC 4585 6.2.1)
/// one FCI entry with a LITERAL bitmask (the list length is then concrete; a symbolic BLP makes the
/// result Vec's length symbolic and CBMC runs out of memory): the parsed list is exactly PID followed
/// by PID+i+1 for every set bit i, in order, for every PID (incl. across 65535 -> 0); SSRCs recovered
fn parse_nack_obligation(blp: u16) {
    let mut body: [u8; 12] = kani::any();
    body[10] = (blp >> 8) as u8; body[11] = blp as u8;
    let n = parse_nack_body(&body).unwrap();
    assert!(n.sender_ssrc == u32::from_be_bytes([body[0], body[1], body[2], body[3]]));
    assert!(n.media_ssrc == u32::from_be_bytes([body[4], body[5], body[6], body[7]]));
    let pid = u16::from_be_bytes([body[8], body[9]]);
    assert!(n.lost_packets.len() == 1 + blp.count_ones() as usize && n.lost_packets[0] == pid);
    let mut k = 1; let mut bit = 0u16;
    while bit < 16 { if (blp >> bit) & 1 == 1 { assert!(n.lost_packets[k] == pid.wrapping_add(bit + 1)); k += 1; } bit += 1; }
    core::mem::forget(n);
}
#[kani::proof]
#[kani::unwind(19)]
fn c15_parse_nack_blp_top_bit() { parse_nack_obligation(0x8000); }
#[kani::proof]
#[kani::unwind(19)]
fn c15_parse_nack_blp_all_bits() { parse_nack_obligation(0xFFFF); }
#[kani::proof]
#[kani::unwind(19)]
fn c15_parse_nack_blp_low_bit() { parse_nack_obligation(0x0001); }

// ---------------------------------------------------------------- RtpPacket::parse_bytes ∘ marshal (static Bytes input)
/// marshal then parse_bytes returns the same packet: fixed header (no CSRC / extension), payload,
/// padding count — first octet's CC and X bits are 0 by construction of the header
fn packet_roundtrip_obligation<const PL: usize, const PAD: u8, const N: usize>() {
    let pl: [u8; PL] = kani::any();
    let p = RtpPacket { header: any_header(0, None), payload: static_bytes_of(pl), padding_len: PAD };
    let w = p.marshal().unwrap();
    assert!(w.len() == N && N == 12 + PL + PAD as usize);
    let mut arr = [0u8; N];
    arr.copy_from_slice(&w);
    let q = RtpPacket::parse_bytes(static_bytes_of(arr)).unwrap();
    assert!(q.header == p.header && q.payload[..] == pl[..] && q.padding_len == PAD);
    core::mem::forget(q); core::mem::forget(p);
}
#[kani::proof]
#[kani::unwind(8)]
fn c15_packet_marshal_parse_p3() { packet_roundtrip_obligation::<3, 0, 15>(); }
#[kani::proof]
#[kani::unwind(8)]
fn c15_packet_marshal_parse_p2_pad2() { packet_roundtrip_obligation::<2, 2, 16>(); }
/// C07: parse_bytes total on 12..16-byte inputs whose first octet is literal V=2, no CSRC, no extension
#[kani::proof]
#[kani::unwind(8)]
fn c07_rtp_packet_parse_bytes_16_literal_b0() {
    let mut a: [u8; 16] = kani::any();
    a[0] = 0x80 | (a[0] & 0x20);   // V=2, P symbolic, X=0, CC=0
    let r = RtpPacket::parse_bytes(static_bytes_of(a));
    if let Ok(q) = &r { assert!(q.payload.len() + q.padding_len as usize == 4); }
    core::mem::forget(r);
}

// ---------------------------------------------------------------- BYE / SDES parse (literal framing, literal ASCII text)
/// parse_goodbye(build_goodbye_body(b)) == b for one source and a short ASCII reason
#[kani::proof]
#[kani::unwind(12)]
fn c15_bye_roundtrip_literal_reason() {
    let ssrc: u32 = kani::any();
    let b = Goodbye { sources: vec![ssrc], reason: Some("bye".to_string()) };
    let body = build_goodbye_body(&b);
    assert!(body.len() == 8 && body[0..4] == ssrc.to_be_bytes() && body[4] == 3 && body[5..8] == *b"bye");
    let p = parse_goodbye(1, &body).unwrap();
    assert!(p.sources.len() == 1 && p.sources[0] == ssrc && p.reason.as_deref() == Some("bye"));
    core::mem::forget(p); core::mem::forget(b);
}
/// parse_sdes(build_sdes_body(s)) == s for one chunk with one CNAME item (literal ASCII text)
#[kani::proof]
#[kani::unwind(12)]
fn c15_sdes_roundtrip_literal_cname() {
    let ssrc: u32 = kani::any();
    let s = SourceDescription { chunks: vec![SdesChunk { ssrc, items: vec![SdesItem { ty: 1, text: "ab".to_string() }] }] };
    let body = build_sdes_body(&s);
    let p = parse_sdes(1, &body).unwrap();
    assert!(p.chunks.len() == 1 && p.chunks[0].ssrc == ssrc && p.chunks[0].items.len() == 1);
    assert!(p.chunks[0].items[0].ty == 1 && p.chunks[0].items[0].text == "ab");
    core::mem::forget(p); core::mem::forget(s);
}

// ---- thorough-tier shapes
#[kani::proof]
#[kani::unwind(6)]
fn c15_sender_report_roundtrip_2() {
    let sr = any_sr(2);
    let body = build_sender_report_body(&sr).unwrap();
    assert!(body.len() == 72);
    assert!(parse_sender_report(2, &body).unwrap() == sr);
}
#[kani::proof]
#[kani::unwind(48)]
fn c15_remb_ssrc_list_3() {
    let r = RemoteBitrateEstimate { sender_ssrc: kani::any(), bitrate_bps: kani::any::<u32>() as u64 & 0x3FFFF, ssrcs: vec![kani::any(), kani::any(), kani::any()] };
    let body = build_remb_body(&r).unwrap();
    assert!(body.len() == 28 && body[12] == 3);
    assert!(parse_remb_body(&body).unwrap() == r);
}
#[kani::proof]
#[kani::unwind(8)]
fn c15_fir_roundtrip_3() {
    let f = FullIntraRequest { sender_ssrc: kani::any(), requests: vec![
        FirRequest { ssrc: kani::any(), sequence_number: kani::any() }, FirRequest { ssrc: kani::any(), sequence_number: kani::any() },
        FirRequest { ssrc: kani::any(), sequence_number: kani::any() }] };
    let body = build_fir_body(&f);
    assert!(body.len() == 32 && parse_fir_body(&body).unwrap() == f);
}
#[kani::proof]
#[kani::unwind(14)]
fn c15_twcc_roundtrip_8() {
    let pl: [u8; 8] = kani::any();
    let t = TransportWideCc { sender_ssrc: kani::any(), media_ssrc: kani::any(), base_sequence: kani::any(), packet_status_count: kani::any(),
        reference_time_64ms: kani::any::<u32>() & 0xFF_FFFF, feedback_packet_count: kani::any(), payload: pl.to_vec() };
    let body = build_twcc_body(&t);
    assert!(body.len() == 24 && parse_twcc_body(&body).unwrap() == t);
}

// ---------------------------------------------------------------- C07: BYE sub-parser, symbolic length octet
// (with symbolic TEXT bytes from_utf8_lossy makes CBMC run out of memory; the text is literal ASCII here,
// the source and — the part that matters for bounds — the reason-length octet are symbolic)
#[kani::proof]
#[kani::unwind(10)]
fn c07_parse_goodbye_symbolic_reason_len() {
    let s: [u8; 4] = kani::any();
    let l: u8 = kani::any();
    let body: [u8; 8] = [s[0], s[1], s[2], s[3], l, b'b', b'y', b'e'];
    let r = parse_goodbye(1, &body);
    assert!(r.is_ok() == (l <= 3));
    core::mem::forget(r);
}

/// boundary values of the reason-length octet as literals (cheap enough for the quick tier):
/// exactly fitting (3) is accepted, one past the end (4) and far past (255) are errors, never panics
#[kani::proof]
#[kani::unwind(10)]
fn c07_parse_goodbye_reason_len_boundary() {
    let s: [u8; 4] = kani::any();
    let ok = parse_goodbye(1, &[s[0], s[1], s[2], s[3], 3, b'b', b'y', b'e']);
    assert!(ok.is_ok());
    core::mem::forget(ok);
    assert!(parse_goodbye(1, &[s[0], s[1], s[2], s[3], 4, b'b', b'y', b'e']).is_err());
    assert!(parse_goodbye(1, &[s[0], s[1], s[2], s[3], 255, b'b', b'y', b'e']).is_err());
    assert!(parse_goodbye(2, &[s[0], s[1], s[2], s[3], 0, 0, 0]).is_err());
}

// ---------------------------------------------------------------- marshal_rtcp_packets (compound writer)
/// one PLI: V=2, FMT=1, PT=206, length=2, sender / media SSRC
#[kani::proof]
#[kani::unwind(12)]
fn c15_marshal_rtcp_pli_layout() {
    let (s, m): (u32, u32) = (kani::any(), kani::any());
    let out = marshal_rtcp_packets(&[RtcpPacket::PictureLossIndication(PictureLossIndication { sender_ssrc: s, media_ssrc: m })]).unwrap();
    assert!(out.len() == 12 && out[0] == 0x81 && out[1] == 206 && out[2..4] == [0, 2]);
    assert!(out[4..8] == s.to_be_bytes() && out[8..12] == m.to_be_bytes());
}
/// RR with one block followed by a PLI: count field, packet types, lengths, and the second
/// sub-packet starts right after the first (compound framing, RFC 3550 6.1)
#[kani::proof]
#[kani::unwind(12)]
fn c15_marshal_rtcp_rr_then_pli_layout() {
    let mut b = any_report_block(); b.packets_lost = (b.packets_lost << 8) >> 8;
    let rr = ReceiverReport { sender_ssrc: kani::any(), report_blocks: vec![b] };
    let (s, m): (u32, u32) = (kani::any(), kani::any());
    let ssrc = rr.sender_ssrc;
    let pkts = [RtcpPacket::ReceiverReport(rr), RtcpPacket::PictureLossIndication(PictureLossIndication { sender_ssrc: s, media_ssrc: m })];
    let out = marshal_rtcp_packets(&pkts).unwrap();
    assert!(out.len() == 32 + 12);
    assert!(out[0] == 0x81 && out[1] == 201 && out[2..4] == [0, 7] && out[4..8] == ssrc.to_be_bytes());
    assert!(out[32] == 0x81 && out[33] == 206 && out[34..36] == [0, 2] && out[36..40] == s.to_be_bytes() && out[40..44] == m.to_be_bytes());
    core::mem::forget(pkts);
}

/// compound round trip: marshal RR(1 block) + PLI, then the real walker parses both sub-packets back
/// (the framing octets marshal emitted are asserted and re-written as literals for constant propagation)
#[kani::proof]
#[kani::unwind(34)]
#[kani::stub(tracing::callsite::DefaultCallsite::interest, st_interest)]
#[kani::stub(tracing::__macro_support::__is_enabled, st_enabled)]
#[kani::stub(tracing::Event::dispatch, st_dispatch)]
fn c15_rtcp_compound_roundtrip_rr_pli() {
    let mut b = any_report_block(); b.packets_lost = (b.packets_lost << 8) >> 8;
    let rr = ReceiverReport { sender_ssrc: kani::any(), report_blocks: vec![b] };
    let pli = PictureLossIndication { sender_ssrc: kani::any(), media_ssrc: kani::any() };
    let pkts = [RtcpPacket::ReceiverReport(rr), RtcpPacket::PictureLossIndication(pli)];
    let out = marshal_rtcp_packets(&pkts).unwrap();
    assert!(out.len() == 44 && out[0..4] == [0x81, 201, 0, 7] && out[32..36] == [0x81, 206, 0, 2]);
    let mut a = [0u8; 44];
    a.copy_from_slice(&out);
    a[0] = 0x81; a[1] = 201; a[2] = 0; a[3] = 7; a[32] = 0x81; a[33] = 206; a[34] = 0; a[35] = 2;
    let back = parse_rtcp_packets(&a, None).unwrap();
    assert!(back.len() == 2 && back[0] == pkts[0] && back[1] == pkts[1]);
    core::mem::forget(back); core::mem::forget(pkts);
}

// ---------------------------------------------------------------- 5-bit count fields (RFC 3550 6.4.1 RC, 6.6 SC)
fn zero_block(i: u32) -> ReportBlock {
    ReportBlock { ssrc: i, fraction_lost: 0, packets_lost: 0, highest_sequence: 0, jitter: 0, last_sender_report: 0, delay_since_last_sender_report: 0 }
}
/// count-field law: whatever marshal emits for a receiver report, the 5-bit RC field equals the number
/// of report blocks actually serialised (RFC 3550 6.4.2) — a report with more than 31 blocks must be
/// rejected (or split), never emitted with a wrapped count
fn rr_count_obligation<const NB: u32>() {
    let mut blocks = Vec::new();
    let mut i = 0u32; while i < NB { blocks.push(zero_block(i)); i += 1; }
    let rr = ReceiverReport { sender_ssrc: kani::any(), report_blocks: blocks };
    let pkts = [RtcpPacket::ReceiverReport(rr)];
    if let Ok(bytes) = marshal_rtcp_packets(&pkts) {
        assert!(bytes.len() >= 8 && (bytes.len() - 8) % 24 == 0);
        assert!((bytes[0] & 0x1F) as usize == (bytes.len() - 8) / 24);
        assert!(u16::from_be_bytes([bytes[2], bytes[3]]) as usize == bytes.len() / 4 - 1);
    }
    core::mem::forget(pkts);
}
#[kani::proof]
#[kani::unwind(36)]
fn c15_rr_count_field_31_blocks() { rr_count_obligation::<31>(); }
#[kani::proof]
#[kani::unwind(36)]
fn c15_rr_count_field_32_blocks() { rr_count_obligation::<32>(); }
// (the same law for BYE with 32 sources ran CBMC out of memory; the repair covers SR, RR, SDES and BYE alike.)
