// Harnesses for src/transports/ice/stun.rs (C16 codec laws, C07 totality). Injected as `mod verif_kani`.
// Spec side written from RFC 5389 (15.1, 15.2, 15.4, 15.5) and RFC 5766.

use std::net::{SocketAddrV4, SocketAddrV6};

/// RFC 5389 15.2 XOR-MAPPED-ADDRESS, IPv4: 0x00 | family 0x01 | port ^ (cookie>>16) | addr ^ cookie
#[kani::proof]
#[kani::unwind(14)]
fn c16_xor_address_v4_layout_and_inverse() {
    let ip: [u8; 4] = kani::any();
    let port: u16 = kani::any();
    let tx: [u8; 12] = kani::any();
    let typ: u16 = kani::any();
    let addr = SocketAddr::V4(SocketAddrV4::new(Ipv4Addr::from(ip), port));
    let mut buf = Vec::new();
    append_xor_address(&mut buf, typ, &addr, &tx);
    assert!(buf.len() == 12);
    assert!(buf[0..2] == typ.to_be_bytes() && buf[2..4] == [0, 8] && buf[4] == 0 && buf[5] == 1);
    assert!(buf[6..8] == (port ^ 0x2112).to_be_bytes());
    assert!(buf[8] == ip[0] ^ 0x21 && buf[9] == ip[1] ^ 0x12 && buf[10] == ip[2] ^ 0xA4 && buf[11] == ip[3] ^ 0x42);
    let back = parse_xor_address(&buf[4..], &tx).unwrap();
    assert!(back == Some(addr));
}
/// IPv6: family 0x02, 16 address bytes XOR (cookie || transaction id)
#[kani::proof]
#[kani::unwind(20)]
fn c16_xor_address_v6_layout_and_inverse() {
    let ip: [u8; 16] = kani::any();
    let port: u16 = kani::any();
    let tx: [u8; 12] = kani::any();
    let typ: u16 = kani::any();
    let addr = SocketAddr::V6(SocketAddrV6::new(Ipv6Addr::from(ip), port, 0, 0));
    let mut buf = Vec::new();
    append_xor_address(&mut buf, typ, &addr, &tx);
    assert!(buf.len() == 24);
    assert!(buf[0..2] == typ.to_be_bytes() && buf[2..4] == [0, 20] && buf[4] == 0 && buf[5] == 2);
    assert!(buf[6..8] == (port ^ 0x2112).to_be_bytes());
    let key = [0x21, 0x12, 0xA4, 0x42, tx[0], tx[1], tx[2], tx[3], tx[4], tx[5], tx[6], tx[7], tx[8], tx[9], tx[10], tx[11]];
    let mut i = 0; while i < 16 { assert!(buf[8 + i] == ip[i] ^ key[i]); i += 1; }
    let back = parse_xor_address(&buf[4..], &tx).unwrap();
    assert!(back == Some(addr));
}
/// parse_xor_address is total on every value up to 20 bytes (any family, any length)
#[kani::proof]
#[kani::unwind(24)]
fn c07_parse_xor_address_total() {
    let v: [u8; 20] = kani::any();
    let n: usize = kani::any();
    kani::assume(n <= 20);
    let tx: [u8; 12] = kani::any();
    let r = parse_xor_address(&v[..n], &tx);
    assert!(r.is_ok());
    if n < 4 || (v[1] != 1 && v[1] != 2) || (v[1] == 1 && n < 8) || (v[1] == 2 && n < 20) { assert!(r.unwrap().is_none()); }
}

/// RFC 5389 15: attribute = type(2) | length(2, UNpadded) | value | zero padding to 32 bits
fn raw_attr_obligation<const N: usize>() {
    let v: [u8; N] = kani::any();
    let typ: u16 = kani::any();
    let mut buf = vec![0u8; 20];
    append_raw_attribute(&mut buf, typ, &v);
    let padded = (N + 3) / 4 * 4;
    assert!(buf.len() == 24 + padded && buf.len() % 4 == 0);
    assert!(buf[20..22] == typ.to_be_bytes() && buf[22..24] == (N as u16).to_be_bytes());
    assert!(buf[24..24 + N] == v[..]);
    let mut i = 24 + N; while i < buf.len() { assert!(buf[i] == 0); i += 1; }
}
#[kani::proof]
#[kani::unwind(12)]
fn c16_raw_attribute_len_0() { raw_attr_obligation::<0>(); }
#[kani::proof]
#[kani::unwind(12)]
fn c16_raw_attribute_len_5() { raw_attr_obligation::<5>(); }
#[kani::proof]
#[kani::unwind(12)]
fn c16_raw_attribute_len_7() { raw_attr_obligation::<7>(); }
#[kani::proof]
#[kani::unwind(10)]
fn c16_pad_four_bytes_all_residues() {
    let n: usize = kani::any();
    kani::assume(n <= 7);
    let mut b = vec![0xEEu8; n];
    pad_four_bytes(&mut b);
    assert!(b.len() == (n + 3) / 4 * 4);
    let mut i = 0; while i < b.len() { assert!(b[i] == if i < n { 0xEE } else { 0 }); i += 1; }
}

// recording stubs for the two primitives: the obligation is about WHAT is fed to them and where
// their result lands, not about SHA-1/CRC (real hmac_sha1 / crc32 are compared with an independent
// implementation by the repository's own tests).
static mut MI_LEN: usize = 0;
static mut MI_LENFIELD: u16 = 0;
static mut MI_SUM: u32 = 0;
static mut FP_LEN: usize = 0;
static mut FP_LENFIELD: u16 = 0;
static mut FP_SUM: u32 = 0;
fn bytesum(d: &[u8]) -> u32 { let mut s = 0u32; let mut i = 0; while i < d.len() { s = s.rotate_left(3) ^ d[i] as u32; i += 1; } s }
fn rec_hmac_sha1(key: &[u8], data: &[u8]) -> [u8; 20] {
    unsafe { MI_LEN = data.len(); MI_LENFIELD = u16::from_be_bytes([data[2], data[3]]); MI_SUM = bytesum(data) ^ key[0] as u32; }
    [0xAB; 20]
}
fn rec_crc32(data: &[u8]) -> u32 {
    unsafe { FP_LEN = data.len(); FP_LENFIELD = u16::from_be_bytes([data[2], data[3]]); FP_SUM = bytesum(data); }
    0x1234_5678
}
fn any_method() -> (StunMethod, u16) {
    match kani::any::<u8>() % 7 { 0 => (StunMethod::Binding, 1), 1 => (StunMethod::Allocate, 3), 2 => (StunMethod::Refresh, 4),
        3 => (StunMethod::CreatePermission, 8), 4 => (StunMethod::ChannelBind, 9), 5 => (StunMethod::Send, 6), _ => (StunMethod::Data, 7) }
}
fn any_class() -> (StunClass, u16) {
    match kani::any::<u8>() % 4 { 0 => (StunClass::Request, 0x000), 1 => (StunClass::Indication, 0x010),
        2 => (StunClass::SuccessResponse, 0x100), _ => (StunClass::ErrorResponse, 0x110) }
}
/// encode_stun_message, empty attribute list, MI + FINGERPRINT (RFC 5389 15.4, 15.5):
/// header type bits, cookie, transaction id; MI computed over exactly the bytes before it with the
/// length field already counting the MI attribute; FINGERPRINT = crc(prefix with length counting
/// FP) ^ 0x5354554e and is the last attribute; final length == len - 20.
#[kani::proof]
#[kani::unwind(48)]
#[kani::stub(hmac_sha1, rec_hmac_sha1)]
#[kani::stub(crc32, rec_crc32)]
fn c16_encode_empty_mi_fp() {
    let (m, mb) = any_method();
    let (c, cb) = any_class();
    let tx: [u8; 12] = kani::any();
    let msg = StunMessage { class: c, method: m, transaction_id: tx, attributes: Vec::new() };
    let key = [0x33u8; 8];
    let out = encode_stun_message(&msg, Some(&key), true).unwrap();
    assert!(out.len() == 20 + 24 + 8);
    assert!(out[0..2] == (mb | cb).to_be_bytes() && out[4..8] == [0x21, 0x12, 0xA4, 0x42] && out[8..20] == tx);
    assert!(out[2..4] == [0, 32]);
    assert!(out[20..24] == [0x00, 0x08, 0x00, 0x14] && out[24..44] == [0xAB; 20]);
    assert!(out[44..48] == [0x80, 0x28, 0x00, 0x04] && out[48..52] == (0x1234_5678u32 ^ 0x5354_554e).to_be_bytes());
    unsafe {
        assert!(MI_LEN == 20 && MI_LENFIELD == 24);
        assert!(FP_LEN == 44 && FP_LENFIELD == 32);
        // the bytes fed to the MAC are the header as emitted, except the length field (24 there)
        let mut hdr = [0u8; 20]; hdr.copy_from_slice(&out[..20]); hdr[2] = 0; hdr[3] = 24;
        assert!(MI_SUM == bytesum(&hdr) ^ 0x33);
        assert!(FP_SUM == bytesum(&out[..44]));
    }
}
/// without integrity/fingerprint: length field == len - 20 and nothing is appended
#[kani::proof]
#[kani::unwind(26)]
fn c16_encode_plain_length() {
    let tx: [u8; 12] = kani::any();
    let l: u32 = kani::any();
    let msg = StunMessage { class: StunClass::SuccessResponse, method: StunMethod::Allocate, transaction_id: tx,
        attributes: vec![StunAttribute::Lifetime(l)] };
    let out = encode_stun_message(&msg, None, false).unwrap();
    assert!(out.len() == 28 && out[2..4] == [0, 8] && out[0..2] == [0x01, 0x03]);
    assert!(out[20..24] == [0x00, 0x0D, 0x00, 0x04] && out[24..28] == l.to_be_bytes());
    core::mem::forget(msg);
}

/// decode_stun_message on a Binding success response with one XOR-MAPPED-ADDRESS (IPv4) attribute:
/// class / method / transaction id recovered, address un-XORed with the magic cookie (RFC 5389 15.2).
/// The framing octets (type, length, attribute header) are literals, everything else is symbolic;
/// that these are the octets encode emits is c16_xor_address_v4_layout_and_inverse + c16_encode_plain_length.
#[kani::proof]
#[kani::unwind(16)]
fn c16_decode_xor_mapped_v4_literal() {
    let tx: [u8; 12] = kani::any();
    let xp: [u8; 2] = kani::any();
    let xa: [u8; 4] = kani::any();
    let m: [u8; 32] = [0x01, 0x01, 0x00, 0x0c, 0x21, 0x12, 0xA4, 0x42,
        tx[0], tx[1], tx[2], tx[3], tx[4], tx[5], tx[6], tx[7], tx[8], tx[9], tx[10], tx[11],
        0x00, 0x20, 0x00, 0x08, 0x00, 0x01, xp[0], xp[1], xa[0], xa[1], xa[2], xa[3]];
    let d = decode_stun_message(&m).unwrap();
    assert!(d.class == StunClass::SuccessResponse && d.method == StunMethod::Binding && d.transaction_id == tx);
    let port = u16::from_be_bytes(xp) ^ 0x2112;
    let ip = Ipv4Addr::new(xa[0] ^ 0x21, xa[1] ^ 0x12, xa[2] ^ 0xA4, xa[3] ^ 0x42);
    assert!(d.xor_mapped_address == Some(SocketAddr::V4(SocketAddrV4::new(ip, port))));
    assert!(d.xor_peer_address.is_none() && d.xor_relayed_address.is_none() && !d.use_candidate && d.lifetime.is_none() && d.error_code.is_none());
    core::mem::forget(d);
}

// ---- C07: totality of the decoder, one harness per concrete length
macro_rules! stun_total {
    ($name:ident, $n:expr, $u:expr) => {
        #[kani::proof]
        #[kani::unwind($u)]
        fn $name() {
            let b: [u8; $n] = kani::any();
            let r = decode_stun_message(&b);
            core::mem::forget(r);
        }
    };
}
stun_total!(c07_stun_decode_0, 0, 14);
stun_total!(c07_stun_decode_19, 19, 14);
stun_total!(c07_stun_decode_20, 20, 14);

/// decode of a 24-byte message = header + ONE attribute header: a zero-length attribute in the
/// last four bytes is still visited (USE-CANDIDATE is exactly such an attribute)
#[kani::proof]
#[kani::unwind(40)]
fn c16_decode_24_trailing_zero_length_attr() {
    let mut b: [u8; 24] = kani::any();
    b[22] = 0; b[23] = 0; // attribute length 0
    let typ = u16::from_be_bytes([b[20], b[21]]);
    let r = decode_stun_message(&b);
    if let Ok(d) = r {
        assert!(d.use_candidate == (typ == 0x0025));
        assert!(d.transaction_id == [b[8], b[9], b[10], b[11], b[12], b[13], b[14], b[15], b[16], b[17], b[18], b[19]]);
        kani::cover!(d.use_candidate);
        core::mem::forget(d);
    }
}
/// decode(encode(binding request + USE-CANDIDATE)) sees USE-CANDIDATE
#[kani::proof]
#[kani::unwind(40)]
fn c16_decode_of_encode_use_candidate() {
    let tx: [u8; 12] = kani::any();
    let msg = StunMessage { class: StunClass::Request, method: StunMethod::Binding, transaction_id: tx, attributes: vec![StunAttribute::UseCandidate] };
    let out = encode_stun_message(&msg, None, false).unwrap();
    assert!(out.len() == 24 && out[20..24] == [0x00, 0x25, 0x00, 0x00]);
    let d = decode_stun_message(&out).unwrap();
    assert!(d.use_candidate && d.class == StunClass::Request && d.method == StunMethod::Binding && d.transaction_id == tx);
    core::mem::forget(msg); core::mem::forget(d);
}

/// attribute walk: an unknown comprehension-optional attribute with a NON-multiple-of-4 length is
/// skipped together with its padding, and the attribute after it (LIFETIME) is decoded (RFC 5389 15)
#[kani::proof]
#[kani::unwind(16)]
fn c16_decode_skips_padding_literal() {
    let tx: [u8; 12] = kani::any();
    let junk: [u8; 8] = kani::any();   // 5 value bytes + 3 padding bytes (padding content is arbitrary per RFC)
    let lt: [u8; 4] = kani::any();
    let m: [u8; 40] = [0x01, 0x03, 0x00, 0x14, 0x21, 0x12, 0xA4, 0x42,
        tx[0], tx[1], tx[2], tx[3], tx[4], tx[5], tx[6], tx[7], tx[8], tx[9], tx[10], tx[11],
        0x80, 0x22, 0x00, 0x05, junk[0], junk[1], junk[2], junk[3], junk[4], junk[5], junk[6], junk[7],
        0x00, 0x0D, 0x00, 0x04, lt[0], lt[1], lt[2], lt[3]];
    let d = decode_stun_message(&m).unwrap();
    assert!(d.class == StunClass::SuccessResponse && d.method == StunMethod::Allocate);
    assert!(d.lifetime == Some(u32::from_be_bytes(lt)));
    assert!(d.xor_mapped_address.is_none() && !d.use_candidate);
    core::mem::forget(d);
}
/// ERROR-CODE (RFC 5389 15.6): class*100 + number; XOR-RELAYED-ADDRESS and XOR-PEER-ADDRESS land in their own fields
#[kani::proof]
#[kani::unwind(16)]
fn c16_decode_error_and_relayed_literal() {
    let tx: [u8; 12] = kani::any();
    let (cls, num): (u8, u8) = (kani::any(), kani::any());
    kani::assume(cls <= 7 && num <= 99);
    let xp: [u8; 2] = kani::any();
    let xa: [u8; 4] = kani::any();
    let m: [u8; 52] = [0x01, 0x13, 0x00, 0x20, 0x21, 0x12, 0xA4, 0x42,
        tx[0], tx[1], tx[2], tx[3], tx[4], tx[5], tx[6], tx[7], tx[8], tx[9], tx[10], tx[11],
        0x00, 0x09, 0x00, 0x04, 0x00, 0x00, cls, num,
        0x00, 0x16, 0x00, 0x08, 0x00, 0x01, xp[0], xp[1], xa[0], xa[1], xa[2], xa[3],
        0x00, 0x12, 0x00, 0x08, 0x00, 0x01, xp[1], xp[0], xa[3], xa[2], xa[1], xa[0]];
    let d = decode_stun_message(&m).unwrap();
    assert!(d.class == StunClass::ErrorResponse && d.method == StunMethod::Allocate && d.transaction_id == tx);
    assert!(d.error_code == Some(cls as u16 * 100 + num as u16));
    let relayed = SocketAddr::V4(SocketAddrV4::new(Ipv4Addr::new(xa[0] ^ 0x21, xa[1] ^ 0x12, xa[2] ^ 0xA4, xa[3] ^ 0x42), u16::from_be_bytes(xp) ^ 0x2112));
    let peer = SocketAddr::V4(SocketAddrV4::new(Ipv4Addr::new(xa[3] ^ 0x21, xa[2] ^ 0x12, xa[1] ^ 0xA4, xa[0] ^ 0x42), u16::from_be_bytes([xp[1], xp[0]]) ^ 0x2112));
    assert!(d.xor_relayed_address == Some(relayed) && d.xor_peer_address == Some(peer) && d.xor_mapped_address.is_none());
    core::mem::forget(d);
}
/// a message whose length field disagrees with the datagram is rejected, never mis-read
/// (declared length is a literal so that CBMC prunes the attribute walk; content symbolic)
#[kani::proof]
#[kani::unwind(16)]
fn c16_decode_length_mismatch_rejected() {
    let mut m: [u8; 24] = kani::any();
    m[2] = 0; m[3] = 0;                       // declares an empty body, the datagram carries 4 more bytes
    assert!(decode_stun_message(&m).is_err());
    let mut n: [u8; 24] = kani::any();
    n[2] = 0; n[3] = 8;                       // declares 8 bytes, only 4 present
    assert!(decode_stun_message(&n).is_err());
}

// (encode with a String-carrying attribute + MI + FP was measured: CBMC runs out of memory after ~10 min —
// drop glue of the attribute enum; the padding law itself is covered by c16_raw_attribute_len_5/7.)

/// the MESSAGE-INTEGRITY primitive wrapper (stubbed out in the encode obligations above):
/// hmac_sha1(key, data) is the 20-byte MAC of exactly `data` under exactly `key`
#[kani::proof]
#[kani::unwind(24)]
fn c16_hmac_sha1_wrapper() {
    let key: [u8; 5] = kani::any();
    let data: [u8; 7] = kani::any();
    let got = hmac_sha1(&key, &data);
    let mut mac = <HmacSha1 as hmac::digest::KeyInit>::new_from_slice(&key).unwrap();
    mac.update(&data);
    let want = mac.finalize().into_bytes();
    assert!(got[..] == want[..]);
}

// (decode(encode(m)) for a Binding success response with the assert-then-literal trick finished once in 624 s
// and ran out of memory (> 14 GB) under load: not registered. The composition is covered by
// c16_xor_address_v4_layout_and_inverse + c16_encode_plain_length + c16_decode_xor_mapped_v4_literal.)
