// Harnesses for src/transports/dtls/record.rs (C07, bounded)
macro_rules! rec_total {
    ($name:ident, $n:expr) => {
        #[kani::proof]
        #[kani::unwind(24)]
        fn $name() {
            let mut b = static_bytes::<$n>();
            let r = DtlsRecord::decode(&mut b);
            core::mem::forget(r);
        }
    };
}
rec_total!(c07_record_0, 0);
rec_total!(c07_record_12, 12);
rec_total!(c07_record_13, 13);
rec_total!(c07_record_14, 14);
rec_total!(c07_record_20, 20);

/// DtlsRecord::encode layout (RFC 6347 4.1): type | version | epoch | 48-bit seq | length | payload
#[kani::proof]
#[kani::unwind(24)]
fn c03_record_encode_layout_4() {
    let ct = match kani::any::<u8>() % 5 { 0 => ContentType::ChangeCipherSpec, 1 => ContentType::Alert, 2 => ContentType::Handshake,
        3 => ContentType::ApplicationData, _ => ContentType::Heartbeat };
    let pl: [u8; 4] = kani::any();
    let seq = kani::any::<u64>() & 0xFFFF_FFFF_FFFF;
    let r = DtlsRecord { content_type: ct, version: ProtocolVersion { major: kani::any(), minor: kani::any() }, epoch: kani::any(),
        sequence_number: seq, payload: static_bytes_of(pl) };
    let mut buf = BytesMut::with_capacity(32);
    r.encode(&mut buf);
    assert!(buf.len() == 17);
    assert!(buf[0] == ct as u8 && buf[1] == r.version.major && buf[2] == r.version.minor);
    assert!(buf[3..5] == r.epoch.to_be_bytes());
    let s = seq.to_be_bytes();
    assert!(buf[5..11] == s[2..8] && buf[11..13] == [0, 4] && buf[13..17] == pl);
    core::mem::forget(buf);
}
/// decode on what encode produced (as a static Bytes) returns the same record and consumes it
#[kani::proof]
#[kani::unwind(24)]
fn c03_record_decode_fields_17() {
    let raw: [u8; 17] = kani::any();
    let mut b = static_bytes_of(raw);
    let r = DtlsRecord::decode(&mut b);
    let len = u16::from_be_bytes([raw[11], raw[12]]) as usize;
    match r {
        Ok(Some(rec)) => {
            assert!(len <= 4 && raw[0] >= 20 && raw[0] <= 24);
            assert!(rec.content_type as u8 == raw[0] && rec.version.major == raw[1] && rec.version.minor == raw[2]);
            assert!(rec.epoch == u16::from_be_bytes([raw[3], raw[4]]));
            assert!(rec.sequence_number == u64::from_be_bytes([0, 0, raw[5], raw[6], raw[7], raw[8], raw[9], raw[10]]));
            assert!(rec.payload[..] == raw[13..13 + len] && b.len() == 4 - len);
            kani::cover!(len == 4);
            core::mem::forget(rec);
        }
        Ok(None) => assert!(len > 4),
        Err(_) => assert!(raw[0] < 20 || raw[0] > 24),
    }
}

/// decode(encode(r)) == r and the buffer is consumed (length octets asserted, then re-written as literals)
#[kani::proof]
#[kani::unwind(24)]
fn c03_record_roundtrip_4() {
    let ct = match kani::any::<u8>() % 5 { 0 => ContentType::ChangeCipherSpec, 1 => ContentType::Alert, 2 => ContentType::Handshake,
        3 => ContentType::ApplicationData, _ => ContentType::Heartbeat };
    let pl: [u8; 4] = kani::any();
    let r = DtlsRecord { content_type: ct, version: ProtocolVersion { major: kani::any(), minor: kani::any() }, epoch: kani::any(),
        sequence_number: kani::any::<u64>() & 0xFFFF_FFFF_FFFF, payload: static_bytes_of(pl) };
    let mut buf = BytesMut::with_capacity(32);
    r.encode(&mut buf);
    assert!(buf.len() == 17 && buf[11] == 0 && buf[12] == 4);
    let mut a = [0u8; 17];
    a.copy_from_slice(&buf);
    a[11] = 0; a[12] = 4;
    let mut b = static_bytes_of(a);
    let d = DtlsRecord::decode(&mut b).unwrap().unwrap();
    assert!(d.content_type == r.content_type && d.version == r.version && d.epoch == r.epoch && d.sequence_number == r.sequence_number);
    assert!(d.payload[..] == pl[..] && b.is_empty());
    core::mem::forget(buf); core::mem::forget(d);
}
