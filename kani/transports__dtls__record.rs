// Harnesses for src/transports/dtls/record.rs (C07, bounded)
macro_rules! rec_total {
    ($name:ident, $n:expr) => {
        #[kani::proof]
        #[kani::unwind(24)]
        fn $name() {
            let mut b = static_bytes::<$n>();
            let r = DtlsRecord::decode(&mut b);
            core::mem::forget(r);
        }
    };
}
rec_total!(c07_record_0, 0);
rec_total!(c07_record_12, 12);
rec_total!(c07_record_13, 13);
rec_total!(c07_record_14, 14);
rec_total!(c07_record_20, 20);
