// Harnesses for src/transports/sctp.rs (C01 kernels): serial-number comparison (RFC 1982 / RFC 9260 1.6)

/// in-place contract predicates: RFC 1982 serial number comparison
pub(crate) fn post_tsn_gt(a: u32, b: u32, r: bool) -> bool {
    let d = (a as u64 + (1u64 << 32) - b as u64) % (1u64 << 32);
    r == (d > 0 && d < (1u64 << 31))
}
pub(crate) fn post_ssn_gt(a: u16, b: u16, r: bool) -> bool {
    let d = (a as u32 + 65536 - b as u32) % 65536;
    r == (d > 0 && d < 32768)
}
/// tsn_gt(a, b) <=> 0 < (a - b) mod 2^32 < 2^31, for every pair (single call: contract proof)
#[kani::proof_for_contract(tsn_gt)]
fn c01_tsn_gt_serial_spec() {
    let (a, b): (u32, u32) = (kani::any(), kani::any());
    let r = tsn_gt(a, b);
    assert!(post_tsn_gt(a, b, r));
}
#[kani::proof_for_contract(ssn_gt)]
fn c01_ssn_gt_serial_spec() {
    let (a, b): (u16, u16) = (kani::any(), kani::any());
    let r = ssn_gt(a, b);
    assert!(post_ssn_gt(a, b, r));
}
/// irreflexive, asymmetric, successor is greater — what SACK / FORWARD-TSN / SSN ordering rely on
#[kani::proof]
fn c01_serial_order_laws() {
    let (a, b): (u32, u32) = (kani::any(), kani::any());
    assert!(!tsn_gt(a, a));
    if tsn_gt(a, b) { assert!(!tsn_gt(b, a)); }
    assert!(tsn_gt(a.wrapping_add(1), a));
    let (x, y): (u16, u16) = (kani::any(), kani::any());
    assert!(!ssn_gt(x, x));
    if ssn_gt(x, y) { assert!(!ssn_gt(y, x)); }
    assert!(ssn_gt(x.wrapping_add(1), x));
}
#[kani::proof]
fn canary_ssn_gt_is_plain_greater() {
    let (a, b): (u16, u16) = (kani::any(), kani::any());
    assert!(ssn_gt(a, b) == (a > b));
}

// (A Kani twin of the Verus InboundStream contract — two enqueues on a BTreeMap — was measured:
// it does not finish in 900 s even with unwind(14); BTreeMap stays out of CBMC's reach here.)
