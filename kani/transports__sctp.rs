// Harnesses for src/transports/sctp.rs (C01 kernels): serial-number comparison (RFC 1982 / RFC 9260 1.6)

/// tsn_gt(a, b) <=> 0 < (a - b) mod 2^32 < 2^31, for every pair
#[kani::proof]
fn c01_tsn_gt_serial_spec() {
    let (a, b): (u32, u32) = (kani::any(), kani::any());
    let d = (a as u64 + (1u64 << 32) - b as u64) % (1u64 << 32);
    assert!(tsn_gt(a, b) == (d > 0 && d < (1u64 << 31)));
    // irreflexive, asymmetric, successor is greater — what SACK / FORWARD-TSN processing relies on
    assert!(!tsn_gt(a, a));
    if tsn_gt(a, b) { assert!(!tsn_gt(b, a)); }
    assert!(tsn_gt(a.wrapping_add(1), a));
}
#[kani::proof]
fn c01_ssn_gt_serial_spec() {
    let (a, b): (u16, u16) = (kani::any(), kani::any());
    let d = (a as u32 + 65536 - b as u32) % 65536;
    assert!(ssn_gt(a, b) == (d > 0 && d < 32768));
    assert!(!ssn_gt(a, a));
    if ssn_gt(a, b) { assert!(!ssn_gt(b, a)); }
    assert!(ssn_gt(a.wrapping_add(1), a));
}
#[kani::proof]
fn canary_ssn_gt_is_plain_greater() {
    let (a, b): (u16, u16) = (kani::any(), kani::any());
    assert!(ssn_gt(a, b) == (a > b));
}

// (A Kani twin of the Verus InboundStream contract — two enqueues on a BTreeMap — was measured:
// it does not finish in 900 s even with unwind(14); BTreeMap stays out of CBMC's reach here.)
