// Harnesses for src/transports/sctp.rs (C01 kernels): serial-number comparison (RFC 1982 / RFC 9260 1.6)

/// tsn_gt(a, b) <=> 0 < (a - b) mod 2^32 < 2^31, for every pair
#[kani::proof]
fn c01_tsn_gt_serial_spec() {
    let (a, b): (u32, u32) = (kani::any(), kani::any());
    let d = (a as u64 + (1u64 << 32) - b as u64) % (1u64 << 32);
    assert!(tsn_gt(a, b) == (d > 0 && d < (1u64 << 31)));
    // irreflexive, asymmetric, successor is greater — what SACK / FORWARD-TSN processing relies on
    assert!(!tsn_gt(a, a));
    if tsn_gt(a, b) { assert!(!tsn_gt(b, a)); }
    assert!(tsn_gt(a.wrapping_add(1), a));
}
#[kani::proof]
fn c01_ssn_gt_serial_spec() {
    let (a, b): (u16, u16) = (kani::any(), kani::any());
    let d = (a as u32 + 65536 - b as u32) % 65536;
    assert!(ssn_gt(a, b) == (d > 0 && d < 32768));
    assert!(!ssn_gt(a, a));
    if ssn_gt(a, b) { assert!(!ssn_gt(b, a)); }
    assert!(ssn_gt(a.wrapping_add(1), a));
}
#[kani::proof]
fn canary_ssn_gt_is_plain_greater() {
    let (a, b): (u16, u16) = (kani::any(), kani::any());
    assert!(ssn_gt(a, b) == (a > b));
}

// ---- Kani twin of the Verus InboundStream contract (bounded: two messages), gives replayable counterexamples
fn msg(tag: u8) -> Bytes { if tag == 0 { Bytes::from_static(&[0xA0]) } else { Bytes::from_static(&[0xB1]) } }
/// two messages with consecutive SSNs (any start, incl. 65535 -> 0) arriving in either order are
/// released exactly once each, in SSN order, and the stream ends with next_ssn advanced by 2
#[kani::proof]
#[kani::unwind(14)]
#[kani::stub(tracing::callsite::DefaultCallsite::interest, st_interest)]
#[kani::stub(tracing::__macro_support::__is_enabled, st_enabled)]
#[kani::stub(tracing::Event::dispatch, st_dispatch)]
fn c01_inbound_two_messages_any_order() {
    let s0: u16 = kani::any();
    let mut st = InboundStream { next_ssn: s0, pending: BTreeMap::new() };
    let swapped: bool = kani::any();
    let (first, second) = if swapped { (1u16, 0u16) } else { (0u16, 1u16) };
    let o1 = st.enqueue(s0.wrapping_add(first), msg(first as u8));
    let o2 = st.enqueue(s0.wrapping_add(second), msg(second as u8));
    if swapped {
        assert!(o1.is_empty() && o2.len() == 2 && o2[0][0] == 0xA0 && o2[1][0] == 0xB1);
    } else {
        assert!(o1.len() == 1 && o1[0][0] == 0xA0 && o2.len() == 1 && o2[0][0] == 0xB1);
    }
    assert!(st.next_ssn == s0.wrapping_add(2) && st.pending.is_empty());
    core::mem::forget(o1); core::mem::forget(o2); core::mem::forget(st);
}
