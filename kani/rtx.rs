// Harnesses for src/rtx.rs (C15: RFC 4588 wrap/unwrap)

#[kani::proof]
fn c15_osn_codec() {
    let x: u16 = kani::any();
    assert!(encode_osn(x) == x.to_be_bytes());
    assert!(decode_osn(&encode_osn(x)) == Some(x));
    let p: [u8; 1] = kani::any();
    assert!(decode_osn(&p).is_none() && decode_osn(&p[..0]).is_none());
}
/// wrap then unwrap restores sequence number, timestamp, marker and payload (RFC 4588 4)
#[kani::proof]
#[kani::unwind(8)]
fn c15_rtx_wrap_unwrap_p3() {
    let pl: [u8; 3] = kani::any();
    let mut h = RtpHeader::new(kani::any::<u8>() & 0x7f, kani::any(), kani::any(), kani::any());
    h.marker = kani::any();
    let orig = RtpPacket { header: h, payload: crate::verif_prelude::static_bytes_of(pl), padding_len: 0 };
    let cfg = RtxSenderConfig { rtx_ssrc: kani::any(), rtx_payload_type: kani::any::<u8>() & 0x7f };
    let rseq: u16 = kani::any();
    let w = wrap_rtx_packet(&orig, &cfg, rseq);
    assert!(w.header.ssrc == cfg.rtx_ssrc && w.header.payload_type == cfg.rtx_payload_type && w.header.sequence_number == rseq);
    assert!(w.header.timestamp == orig.header.timestamp && w.header.marker == orig.header.marker);
    assert!(w.payload.len() == 5 && w.payload[..2] == orig.header.sequence_number.to_be_bytes() && w.payload[2..] == pl[..]);
    let u = unwrap_rtx_packet(&w, orig.header.ssrc, orig.header.payload_type).unwrap();
    assert!(u.header == orig.header && u.payload[..] == pl[..] && u.padding_len == 0);
    core::mem::forget(u); core::mem::forget(w); core::mem::forget(orig);
}
