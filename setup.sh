#!/bin/sh
# Offline set-up: everything the checks need is committed under /verif (shims, harness modules,
# Verus units). This only verifies the tool chain is present.
set -e
cd "$(dirname "$0")"
command -v cargo-kani >/dev/null || { echo "cargo-kani missing"; exit 1; }
command -v verus >/dev/null || { echo "verus missing"; exit 1; }
command -v rsync >/dev/null || { echo "rsync missing"; exit 1; }
python3 ./check --list >/dev/null
mkdir -p evidence replay
echo "setup ok"
