//! Verification-only substitute for `anyhow`: `Error` is a zero-sized token.
//! Contract assumed of the real crate: an `anyhow::Error` value influences
//! control flow only through `is_err`/`?`, its text, and `downcast_ref`.
use core::fmt;
pub struct Error { _p: () }
pub type Result<T, E = Error> = core::result::Result<T, E>;
impl Error {
    pub fn msg<M: fmt::Display + fmt::Debug + Send + Sync + 'static>(_m: M) -> Self { Error { _p: () } }
    pub fn new<E: std::error::Error + Send + Sync + 'static>(_e: E) -> Self { Error { _p: () } }
    pub fn downcast_ref<E: fmt::Display + fmt::Debug + Send + Sync + 'static>(&self) -> Option<&E> { None }
    pub fn context<C: fmt::Display + Send + Sync + 'static>(self, _c: C) -> Self { self }
}
impl fmt::Debug for Error { fn fmt(&self, _f: &mut fmt::Formatter<'_>) -> fmt::Result { Ok(()) } }
impl fmt::Display for Error { fn fmt(&self, _f: &mut fmt::Formatter<'_>) -> fmt::Result { Ok(()) } }
impl<E: std::error::Error + Send + Sync + 'static> From<E> for Error { fn from(_e: E) -> Self { Error { _p: () } } }
impl From<Error> for Box<dyn std::error::Error + Send + Sync + 'static> { fn from(_e: Error) -> Self { Box::new(Adhoc) } }
impl From<Error> for Box<dyn std::error::Error + Send + 'static> { fn from(_e: Error) -> Self { Box::new(Adhoc) } }
impl From<Error> for Box<dyn std::error::Error + 'static> { fn from(_e: Error) -> Self { Box::new(Adhoc) } }
#[derive(Debug)] struct Adhoc;
impl fmt::Display for Adhoc { fn fmt(&self, _f: &mut fmt::Formatter<'_>) -> fmt::Result { Ok(()) } }
impl std::error::Error for Adhoc {}
pub trait Context<T, E> {
    fn context<C: fmt::Display + Send + Sync + 'static>(self, c: C) -> Result<T, Error>;
    fn with_context<C: fmt::Display + Send + Sync + 'static, F: FnOnce() -> C>(self, f: F) -> Result<T, Error>;
}
impl<T, E: Into<Error>> Context<T, E> for core::result::Result<T, E> {
    fn context<C: fmt::Display + Send + Sync + 'static>(self, _c: C) -> Result<T, Error> { self.map_err(|e| e.into()) }
    fn with_context<C: fmt::Display + Send + Sync + 'static, F: FnOnce() -> C>(self, _f: F) -> Result<T, Error> { self.map_err(|e| e.into()) }
}
impl<T> Context<T, core::convert::Infallible> for Option<T> {
    fn context<C: fmt::Display + Send + Sync + 'static>(self, _c: C) -> Result<T, Error> { self.ok_or(Error { _p: () }) }
    fn with_context<C: fmt::Display + Send + Sync + 'static, F: FnOnce() -> C>(self, _f: F) -> Result<T, Error> { self.ok_or(Error { _p: () }) }
}
#[doc(hidden)] pub fn __mk() -> Error { Error { _p: () } }
#[macro_export] macro_rules! anyhow {
    ($msg:literal $(,)?) => {{ $crate::__mk() }};
    ($err:expr $(,)?) => {{ let _ = &$err; $crate::__mk() }};
    ($fmt:literal, $($arg:tt)*) => {{ if false { let _ = ::core::format_args!($fmt, $($arg)*); } $crate::__mk() }};
}
#[macro_export] macro_rules! bail { ($($t:tt)*) => { return ::core::result::Result::Err($crate::anyhow!($($t)*)) }; }
#[macro_export] macro_rules! ensure { ($c:expr, $($t:tt)*) => { if !($c) { $crate::bail!($($t)*); } }; }
