//! Verification-only substitute for `aes-gcm` 0.10: a toy AEAD with the same
//! `aead` traits. Keystream byte i = f(key, nonce, i); tag = fold(key, nonce, aad, ciphertext).
//! Deterministic; every key/nonce/aad/ciphertext byte and position influences the tag.
//! Multiplication-free (rotate / xor / add only).
pub use aead::{self, AeadCore, AeadInPlace, Error, Key, KeyInit, KeySizeUser};
#[cfg(feature = "alloc")]
pub use aead::{Aead, Payload};
use aead::generic_array::GenericArray;
use aead::consts::{U0, U12, U16};

pub type Nonce<NonceSize = U12> = GenericArray<u8, NonceSize>;
pub type Tag<TagSize = U16> = GenericArray<u8, TagSize>;

#[derive(Clone)]
pub struct Aes128Gcm { k: u32 }

fn mix(a: u32, b: u8, n: u32) -> u32 { (a.rotate_left(5) ^ (b as u32)).wrapping_add(n ^ 0x9e37_79b9) }
fn fold(mut a: u32, data: &[u8], salt: u32) -> u32 { let mut i = 0; while i < data.len() { a = mix(a, data[i], salt.wrapping_add(i as u32)); i += 1; } a }

impl KeySizeUser for Aes128Gcm { type KeySize = U16; }
impl KeyInit for Aes128Gcm { fn new(key: &Key<Self>) -> Self { Aes128Gcm { k: fold(0x811c_9dc5, key, 0) } } }
impl AeadCore for Aes128Gcm { type NonceSize = U12; type TagSize = U16; type CiphertextOverhead = U0; }
impl Aes128Gcm {
    /// keystream byte i under (key, nonce) — exposed so harnesses can state "plaintext = ct ^ ks"
    pub fn ks(&self, nonce: &[u8], i: usize) -> u8 { (fold(self.k, nonce, 0x100).rotate_left((i % 31) as u32).wrapping_add(i as u32) >> 7) as u8 }
    /// tag over (key, nonce, aad, ciphertext) — exposed so harnesses can recompute it
    pub fn tag(&self, nonce: &[u8], aad: &[u8], ct: &[u8]) -> Tag {
        let mut a = fold(self.k, nonce, 0x200);
        a = fold(a, aad, 0x300) ^ (aad.len() as u32);
        a = fold(a, ct, 0x400) ^ ((ct.len() as u32) << 8);
        let mut t = Tag::default();
        let mut i = 0; while i < 16 { a = mix(a, i as u8, 0x500); t[i] = (a >> 9) as u8; i += 1; }
        t
    }
}
impl AeadInPlace for Aes128Gcm {
    fn encrypt_in_place_detached(&self, nonce: &aead::Nonce<Self>, aad: &[u8], buffer: &mut [u8]) -> Result<aead::Tag<Self>, Error> {
        let mut i = 0; while i < buffer.len() { buffer[i] ^= self.ks(nonce, i); i += 1; }
        Ok(self.tag(nonce, aad, buffer))
    }
    fn decrypt_in_place_detached(&self, nonce: &aead::Nonce<Self>, aad: &[u8], buffer: &mut [u8], tag: &aead::Tag<Self>) -> Result<(), Error> {
        let t = self.tag(nonce, aad, buffer);
        let mut d = 0u8; let mut i = 0; while i < 16 { d |= t[i] ^ tag[i]; i += 1; }
        if d != 0 { return Err(Error); }
        let mut i = 0; while i < buffer.len() { buffer[i] ^= self.ks(nonce, i); i += 1; }
        Ok(())
    }
}
