//! Verification-only substitute for `ctr` 0.10 restricted to what rustrtc uses:
//! `Ctr128BE<Aes128>` with `KeyIvInit::new_from_slices`, `from_core(CtrCore::inner_iv_init(..))`
//! and `StreamCipher::apply_keystream`. Keystream byte at stream position p is a deterministic
//! function of (key token, all 16 IV bytes, p): XOR-ing twice with the same (key, iv) is the
//! identity, different IVs give different streams. Multiplication-free.
#![no_std]
pub use cipher;
use core::marker::PhantomData;
use cipher::common::InnerUser;
use cipher::{consts::U16, InOutBuf, InnerIvInit, Iv, IvSizeUser, Key, KeyInit, KeyIvInit, KeySizeUser,
             StreamCipher, StreamCipherError};
use aes::Aes128;

pub mod flavors {
    #[derive(Clone)]
    pub struct Ctr128BE;
}

#[derive(Clone)]
pub struct CtrCore<C, F> { key: C, s: u32, _f: PhantomData<F> }

fn fold_iv(k: u32, iv: &[u8]) -> u32 {
    let mut a = k ^ 0x5bd1_e995;
    let mut i = 0;
    while i < iv.len() { a = (a.rotate_left(5) ^ (iv[i] as u32)).wrapping_add((i as u32) ^ 0x9e37_79b9); i += 1; }
    a
}

impl<F> InnerUser for CtrCore<Aes128, F> { type Inner = Aes128; }
impl<F> IvSizeUser for CtrCore<Aes128, F> { type IvSize = U16; }
impl<F> InnerIvInit for CtrCore<Aes128, F> {
    fn inner_iv_init(inner: Aes128, iv: &Iv<Self>) -> Self {
        let s = fold_iv(inner.k, iv);
        CtrCore { key: inner, s, _f: PhantomData }
    }
}

/// `ctr::Ctr128BE<C>` of the real crate is `StreamCipherCoreWrapper<CtrCore<C, flavors::Ctr128BE>>`
#[derive(Clone)]
pub struct Ctr128BE<C> { core: CtrCore<C, flavors::Ctr128BE>, pos: u32 }

impl Ctr128BE<Aes128> {
    pub fn from_core(core: CtrCore<Aes128, flavors::Ctr128BE>) -> Self { Ctr128BE { core, pos: 0 } }
    fn next(&mut self) -> u8 {
        let p = self.pos;
        self.pos = self.pos.wrapping_add(1);
        (self.core.s.rotate_left(p % 31).wrapping_add(p) >> 7) as u8
    }
}
impl KeySizeUser for Ctr128BE<Aes128> { type KeySize = U16; }
impl IvSizeUser for Ctr128BE<Aes128> { type IvSize = U16; }
impl KeyIvInit for Ctr128BE<Aes128> {
    fn new(key: &Key<Self>, iv: &Iv<Self>) -> Self {
        let k = <Aes128 as KeyInit>::new(key);
        Self::from_core(<CtrCore<Aes128, flavors::Ctr128BE> as InnerIvInit>::inner_iv_init(k, iv))
    }
}
impl StreamCipher for Ctr128BE<Aes128> {
    fn check_remaining(&self, _data_len: usize) -> Result<(), StreamCipherError> { Ok(()) }
    fn unchecked_apply_keystream_inout(&mut self, mut buf: InOutBuf<'_, '_, u8>) {
        let n = buf.len();
        let mut i = 0;
        while i < n {
            let k = self.next();
            let mut b = buf.get(i);
            let v = *b.get_in() ^ k;
            *b.get_out() = v;
            i += 1;
        }
    }
    fn unchecked_write_keystream(&mut self, buf: &mut [u8]) {
        let mut i = 0;
        while i < buf.len() { buf[i] = self.next(); i += 1; }
    }
}
