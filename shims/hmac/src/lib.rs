//! Verification-only substitute for `hmac` 0.13: a deterministic keyed fold in
//! which every key byte and every data byte (and its position) influences every
//! output byte. Same public traits (`digest::Mac`, `KeyInit`) as the real crate.
//! Multiplication-free on purpose (rotate / xor / add only): proving two folds
//! equal through `wrapping_mul` is SAT-hard (DESIGN.md 2.11d).
#![no_std]
pub use digest::{self, KeyInit, Mac};
use core::marker::PhantomData;
use digest::{FixedOutput, MacMarker, Output, OutputSizeUser, Update, InvalidLength, Key};
use digest::common::KeySizeUser;
use digest::consts::U64;

pub struct Hmac<D: OutputSizeUser> { acc: u32, n: u32, _d: PhantomData<D> }
impl<D: OutputSizeUser> Clone for Hmac<D> { fn clone(&self) -> Self { Hmac { acc: self.acc, n: self.n, _d: PhantomData } } }
impl<D: OutputSizeUser> MacMarker for Hmac<D> {}
impl<D: OutputSizeUser> OutputSizeUser for Hmac<D> { type OutputSize = D::OutputSize; }
impl<D: OutputSizeUser> KeySizeUser for Hmac<D> { type KeySize = U64; }
impl<D: OutputSizeUser> Hmac<D> {
    fn absorb(&mut self, data: &[u8]) {
        let mut i = 0;
        while i < data.len() {
            self.acc = (self.acc.rotate_left(5) ^ (data[i] as u32)).wrapping_add(self.n ^ 0x9e37_79b9);
            self.n = self.n.wrapping_add(1);
            i += 1;
        }
    }
}
impl<D: OutputSizeUser> KeyInit for Hmac<D> {
    fn new(key: &Key<Self>) -> Self { let mut h = Hmac { acc: 0x811c_9dc5, n: 0, _d: PhantomData }; h.absorb(key); h.n = 0x1000; h }
    fn new_from_slice(key: &[u8]) -> Result<Self, InvalidLength> { let mut h = Hmac { acc: 0x811c_9dc5, n: 0, _d: PhantomData }; h.absorb(key); h.n = 0x1000; Ok(h) }
}
impl<D: OutputSizeUser> Update for Hmac<D> { fn update(&mut self, data: &[u8]) { self.absorb(data) } }
impl<D: OutputSizeUser> FixedOutput for Hmac<D> {
    fn finalize_into(self, out: &mut Output<Self>) {
        let mut a = self.acc ^ self.n;
        let mut i = 0;
        while i < out.len() { a = a.rotate_left(7).wrapping_add(0x9e37_79b9) ^ (i as u32); out[i] = (a >> 11) as u8; i += 1; }
    }
}
