//! Verification-only substitute for `aes` 0.9: `Aes128` is a 32-bit token folded from the 16 key
//! bytes (every key byte and position influences it). rustrtc only ever uses `Aes128` as the key
//! holder of `ctr::Ctr128BE<Aes128>`; the keystream itself is produced by the `ctr` substitute.
//! Multiplication-free (rotate / xor / add only).
#![no_std]
pub use cipher;
use cipher::{consts::U16, Key, KeyInit, KeySizeUser};

#[derive(Clone)]
pub struct Aes128 { pub k: u32 }

impl KeySizeUser for Aes128 { type KeySize = U16; }
impl KeyInit for Aes128 {
    fn new(key: &Key<Self>) -> Self {
        let mut a: u32 = 0x811c_9dc5;
        let mut i = 0;
        while i < 16 { a = (a.rotate_left(5) ^ (key[i] as u32)).wrapping_add((i as u32) ^ 0x9e37_79b9); i += 1; }
        Aes128 { k: a }
    }
}
