"""Registry of obligations per property. Read by ./check.

kind:  proof   = unbounded obligation (full input domain of the function, or an inductive lemma)
       bounded = bounded stand-in with the stated bound (never counted as proved)
       canary  = must FAIL (pipeline/vacuity self-check)
tier:  quick | thorough (thorough runs quick + thorough)
"""

COMMON_TRUSTED = [
    "Kani 0.68 / CBMC 6.11 / CaDiCaL; Verus 0.2026.09.13 / Z3 (tool soundness)",
    "MIR semantics as modelled by Kani; machine integers are bit-vectors in Kani (exact) and int with range checks in Verus",
    "contracts and harness modules are injected into a byte-identical scratch copy of /repo's working tree on every run (lib/scratch.py); no existing line is changed",
    "[patch.crates-io] anyhow -> zero-sized Error (verification builds only): an anyhow::Error influences control flow only via is_err/?",
    "termination: proved in Verus (decreases); in Kani only within the unwinding bound (unwinding assertions on)",
]

CRYPTO_TRUSTED = [
    "[patch.crates-io] hmac 0.13 -> deterministic keyed fold with the same digest::Mac/KeyInit traits: real HMAC is assumed to be a deterministic function of (key, data); unforgeability is assumed, never proved",
    "[patch.crates-io] aes-gcm 0.10 -> toy AEAD with the same aead traits: determinism and 'every input byte matters' only; cryptographic strength assumed",
    "[patch.crates-io] aes 0.9 + ctr 0.10 -> toy XOR keystream keyed by (key, all 16 IV bytes, position): determinism only; AES strength assumed",
    "literal SrtpContext built by the harness (its constructor SrtpContext::new has its own obligation: Ok => well_formed)",
    "stub: std::time::Instant::now -> fixed instant (clock_gettime is a foreign function)",
]


def K(name, harness, tier, kind, functions, statement, timeout=300, bound=None, expect=None, module="srtp", min_covers=None):
    d = {"name": name, "harness": "%s::verif_kani::%s" % (module, harness), "tier": tier, "kind": kind,
         "functions": functions, "statement": statement, "timeout": timeout}
    if bound:
        d["bound"] = bound
    if expect:
        d["expect"] = expect
    if min_covers is not None:
        d["min_covers"] = min_covers
    return d


def V(name, unit, tier, kind, functions, statement, min_verified, timeout=300):
    return {"name": name, "unit": unit, "tier": tier, "kind": kind, "functions": functions, "statement": statement,
            "min_verified": min_verified, "timeout": timeout}


HM2, RCM = "transports::dtls::handshake", "transports::dtls::record"

PROPS = {}

# =============================================================================== C04
PROPS["C04"] = {
    "level": "proof",
    "explanation": "SRTP index estimation for all sequence histories (contracts on estimate_roc/update + inductive lemma), IV/nonce construction against RFC spec functions, protect/unprotect layout as bounded stand-ins",
    "trusted_base": CRYPTO_TRUSTED,
    "kani": [
        K("estimate_roc contract", "c04_estimate_roc_contract", "quick", "proof", ["SrtpContext::estimate_roc"],
          "in-place kani::ensures: last=None => v==roc; SEQ-s_l < -2^15 => v==roc+1; > 2^15 => v==roc-1 (mod 2^32); else v==roc — for every (roc, last, seq)"),
        K("update contract", "c04_update_contract", "quick", "proof", ["SrtpContext::update"],
          "in-place kani::ensures + kani::modifies(rollover_counter,last_sequence): state becomes max(old index, roc*2^16+seq); first packet initialises; nothing else is written"),
        K("index step (estimate∘update)", "c04_index_step", "quick", "proof", ["SrtpContext::estimate_roc", "SrtpContext::update"],
          "for every receiver state h and genuine sender index i with |i-h| < 2^15: estimate_roc(i mod 2^16) == i div 2^16 and update leaves max(h,i)"),
        K("build_iv == RFC 3711 4.1.1", "c04_build_iv_spec", "quick", "proof", ["SrtpContext::build_iv"],
          "IV == (k_s*2^16) xor (SSRC*2^64) xor (i*2^16) for every salt, ssrc, roc, seq"),
        K("build_gcm_nonce == RFC 7714 8.1", "c04_build_gcm_nonce_spec", "quick", "proof", ["SrtpContext::build_gcm_nonce"],
          "nonce == (00 00 || SSRC || ROC || SEQ) xor salt for every salt, ssrc, roc, seq"),
        K("build_gcm_rtcp_nonce == RFC 7714 9.1", "c04_build_gcm_rtcp_nonce_spec", "quick", "proof", ["SrtpContext::build_gcm_rtcp_nonce"],
          "nonce == (00 00 || SSRC || 00 00 || index) xor salt for every salt, ssrc, index"),
        K("IV/nonce injective in (ssrc, roc, seq)", "c04_iv_injective", "quick", "proof", ["SrtpContext::build_iv", "SrtpContext::build_gcm_nonce"],
          "for a fixed salt two packets get the same IV/nonce only if ssrc, roc and seq all agree"),
        K("profile parameter table", "c04_profile_table", "quick", "proof",
          ["SrtpProfile::tag_len", "SrtpProfile::salt_len", "SrtpProfile::key_len", "SrtpProfile::auth_key_len"],
          "tag/salt/key/auth-key lengths per profile equal RFC 3711 8.2 / RFC 7714 14.2"),
        K("cipher_rtcp IV == RFC 3711 4.1.1 (SRTCP index)", "c04_cipher_rtcp_iv_spec", "quick", "proof", ["SrtpContext::cipher_rtcp"],
          "the IV handed to the cipher == (k_s*2^16) xor (SSRC*2^64) xor (index*2^16) for every salt, ssrc, index; first 8 bytes untouched (ctr_from_key replaced by a recording stub)"),
        K("protect layout AES_CM_128_HMAC_SHA1_80 (4 B payload, 2 B padding)", "c04_protect_layout_sha80_p4_pad2", "quick", "bounded",
          ["SrtpContext::protect", "SrtpContext::protected_rtp_len", "SrtpContext::build_iv", "SrtpContext::estimate_roc", "SrtpContext::update", "RtpHeader::write_to"],
          "output == header image || keystream(IV per RFC 3711 4.1.1) xor (payload||padding) || MAC(header||body||ROC)[..10]; length == protected_rtp_len; P bit; state advanced per post_update",
          bound="12-byte header (all fields symbolic), 4 payload bytes, padding 2; fixed keys; hmac/aes/ctr substitutes", timeout=900),
        K("protect layout SHA1_32 (empty payload)", "c04_protect_layout_sha32_p0", "thorough", "bounded", ["SrtpContext::protect"],
          "same, 4-byte tag, empty body skips the cipher", bound="12-byte header, empty payload", timeout=900),
        K("protect layout SHA1_32 (empty payload), callees by contract", "c04_protect_layout_sha32_p0_modular", "quick", "bounded", ["SrtpContext::protect"],
          "same layout obligation with estimate_roc and update replaced by their verified contracts (kani::stub_verified): the caller is checked against the callee contracts, not their bodies",
          bound="12-byte header, empty payload", timeout=900),
        K("protect layout NULL cipher (4 B payload)", "c04_protect_layout_null_p4", "thorough", "bounded", ["SrtpContext::protect"],
          "same, body in clear", bound="12-byte header, 4 payload bytes", timeout=900),
        K("protect∘unprotect round trip AES_CM_128_HMAC_SHA1_80 (2 B payload, 2 B padding)", "c04_roundtrip_sha80_p2_pad2", "quick", "bounded",
          ["SrtpContext::protect", "SrtpContext::unprotect", "SrtpContext::estimate_roc", "SrtpContext::update", "SrtpContext::build_iv", "constant_time_eq"],
          "unprotect(protect(p)) == p (header fields, payload, padding) for every header/payload and every shared (roc,last_seq) state; both contexts end in the same index state",
          bound="12-byte header, 2 payload bytes, padding 2; fixed keys; SrtpPacket re-wrapped literally (SrtpPacket::parse skipped)", timeout=1200),
        K("protect∘unprotect round trip NULL cipher (2 B payload)", "c04_roundtrip_null_p2", "thorough", "bounded",
          ["SrtpContext::protect", "SrtpContext::unprotect"], "same", bound="12-byte header, 2 payload bytes", timeout=1200),
        K("protect_rtcp∘unprotect_rtcp AES_CM (12 B)", "c04_rtcp_roundtrip_sha80_12", "quick", "bounded",
          ["SrtpContext::protect_rtcp", "SrtpContext::unprotect_rtcp", "SrtpContext::cipher_rtcp", "SrtpContext::auth_tag_rtcp_into"],
          "identity; first 8 bytes in clear; E bit set; index appended big-endian before the tag and incremented per packet",
          bound="12-byte RTCP packet, symbolic content and index", timeout=900),
        K("protect_rtcp∘unprotect_rtcp NULL (12 B)", "c04_rtcp_roundtrip_null_12", "thorough", "bounded",
          ["SrtpContext::protect_rtcp", "SrtpContext::unprotect_rtcp"], "same", bound="12-byte RTCP packet", timeout=900),
        K("GCM protect layout + protect∘unprotect round trip (2 B payload)", "c04_gcm_protect_layout_and_roundtrip_p2", "thorough", "bounded",
          ["SrtpContext::protect", "SrtpContext::unprotect", "SrtpContext::build_gcm_nonce"],
          "output == header image || AEAD-seal(payload) with AAD = header image and nonce = RFC 7714 8.1; unprotect on a second context returns header, payload, and the same index state",
          bound="12-byte header, 2 payload bytes; aes-gcm substitute", timeout=1500),
        K("protect_rtcp∘unprotect_rtcp GCM (12 B)", "c04_rtcp_gcm_roundtrip_12", "thorough", "bounded",
          ["SrtpContext::protect_rtcp", "SrtpContext::unprotect_rtcp", "SrtpContext::build_gcm_rtcp_nonce"],
          "identity; header in clear; trailer == index word with E bit; index incremented", bound="12-byte RTCP packet; aes-gcm substitute", timeout=1500),
        K("SRTCP tag is 80 bits under AES_CM_128_HMAC_SHA1_32 (RFC 5764 4.1.2)", "c04_rtcp_tag_len_rfc5764_sha32", "quick", "bounded",
          ["SrtpContext::protect_rtcp", "SrtpProfile::tag_len"],
          "protect_rtcp appends the 4-byte index word and a 10-byte tag: the _32 profile shortens only the SRTP tag (RFC 5764 4.1.2 'RTCP auth_tag_length: 80'; libsrtp and webrtc-srtp do the same), otherwise an independent implementation rejects every SRTCP packet",
          bound="12-byte RTCP packet", timeout=900),
        K("SRTCP tag is 80 bits under AES_CM_128_HMAC_SHA1_80", "c04_rtcp_tag_len_rfc5764_sha80", "thorough", "bounded", ["SrtpContext::protect_rtcp"],
          "same", bound="12-byte RTCP packet", timeout=900),
        K("protect_rtcp∘unprotect_rtcp SHA1_32 (12 B)", "c04_rtcp_roundtrip_sha32_12", "thorough", "bounded",
          ["SrtpContext::protect_rtcp", "SrtpContext::unprotect_rtcp"], "identity under the _32 profile", bound="12-byte RTCP packet", timeout=900),
        K("protect∘unprotect round trip, padding-only packet", "c04_roundtrip_sha80_p0_pad1", "quick", "bounded",
          ["SrtpContext::protect", "SrtpContext::unprotect"],
          "a packet with empty payload and one padding byte (P bit set) round-trips like any other", bound="12-byte header, empty payload, padding 1", timeout=1200),
        K("SrtpPacket::parse (16 B, literal first octet)", "c04_srtp_packet_parse_16_literal_b0", "quick", "bounded", ["SrtpPacket::parse", "RtpHeader::parse"],
          "header fields recovered, padding bit kept for after decryption, body == everything after the 12-byte header",
          bound="16 bytes in a BytesMut; first octet V=2, X=0, CC=0 literal, P bit and everything else symbolic", timeout=900),
        K("protect → SrtpPacket::parse → unprotect (real receive path, AES_CM, 2 B payload, 2 B padding)", "c04_full_roundtrip_via_parse_sha80_p2_pad2", "quick", "bounded",
          ["SrtpContext::protect", "SrtpPacket::parse", "SrtpContext::unprotect"],
          "the bytes protect wrote are parsed by the real SrtpPacket::parse and unprotected: header fields, payload, padding and index state come back",
          bound="12-byte header, 2 payload bytes, padding 2; fixed keys", timeout=1800),
        K("round trip with CSRC + header extension (AES_CM, 4 B payload)", "c04_roundtrip_sha80_csrc1_ext4_p4", "thorough", "bounded",
          ["SrtpContext::protect", "SrtpContext::unprotect", "RtpHeader::write_to", "RtpHeader::encoded_len"],
          "CSRC and extension block stay in clear in the header image and are authenticated; unprotect returns header, payload", bound="12-byte header + 1 CSRC + 4-byte one-byte-header extension block, 4 payload bytes", timeout=1800),
        K("round trip AES_CM (8 B payload)", "c04_roundtrip_sha80_p8", "thorough", "bounded", ["SrtpContext::protect", "SrtpContext::unprotect"], "same law, larger payload", bound="12-byte header, 8 payload bytes", timeout=1800),
        K("round trip SHA1_32 (4 B payload, 4 B padding)", "c04_roundtrip_sha32_p4_pad4", "thorough", "bounded", ["SrtpContext::protect", "SrtpContext::unprotect"], "same law under the 32-bit tag profile", bound="12-byte header, 4 payload bytes, padding 4", timeout=1800),
        K("kdf == AES-CM PRF with label at byte 7 (RFC 3711 4.3)", "c04_kdf_spec", "quick", "proof", ["SrtpContext::kdf"],
          "for every master key, salt and label: output == AES-CM keystream under the master key with IV = salt padded to 16 bytes, label XORed into byte 7 (aes/ctr substitutes: determinism only)"),
        K("derive_keys labels 0..5 (SHA1_80)", "c04_derive_keys_labels_sha80", "quick", "proof", ["SrtpContext::derive_keys", "SrtpContext::kdf"],
          "RTP cipher/auth/salt = kdf labels 0/1/2, RTCP = 3/4/5, lengths per profile, for every master key and salt"),
        K("derive_keys labels (GCM)", "c04_derive_keys_labels_gcm", "thorough", "proof", ["SrtpContext::derive_keys", "SrtpContext::kdf"],
          "same with 12-byte salts and no auth keys"),
        K("canary: estimate_roc always returns roc", "canary_estimate_roc_always_roc", "quick", "canary", ["SrtpContext::estimate_roc"],
          "false claim, must FAIL", expect="fail"),
    ],
    "verus": [
        V("index tracking over all histories (Verus)", "srtp_index", "quick", "proof",
          ["SrtpContext::estimate_roc", "SrtpContext::update"],
          "verbatim estimate_roc/update satisfy est()/upd(); lemma index_tracking: for any arrival sequence with each genuine index within 2^15-1 of the running maximum, every packet is estimated with the sender's ROC (induction over Seq<int>, unbounded)",
          min_verified=9),
        V("SrtpSession: one context per SSRC and direction, keyed by that direction (Verus)", "srtp_session_tables", "quick", "proof",
          ["SrtpSession::protect_rtp", "SrtpSession::protect_rtcp", "SrtpSession::unprotect_rtp", "SrtpSession::unprotect_rtcp"],
          "verbatim session functions over the vstd HashMap/Entry specs, for ANY number of SSRCs: the call uses the context stored under the packet's own SSRC in the table of its own direction; a context it creates is built from that direction's keying material, the session profile and the packet's SSRC and starts at index 0; no other SSRC's context and nothing in the other table changes (frame over the whole map view); SRTCP shorter than 8/14 bytes is rejected with both tables unchanged",
          min_verified=7),
    ],
}

# =============================================================================== C05
HM = "hmac substitute (deterministic keyed fold)"
PROPS["C05"] = {
    "level": "proof",
    "explanation": "context-level contracts: Err => receiver crypto state (rollover counter, last sequence, SRTCP index) unchanged; Ok => the stripped tag equals the MAC recomputed by the harness over EVERY preceding byte (and the ROC for RTP); short inputs rejected. Packet shapes are bounded and reported as bounded stand-ins; only constant_time_eq is unbounded over its reachable domain.",
    "trusted_base": CRYPTO_TRUSTED + ["SrtpPacket built literally by the harness (SrtpPacket::parse does not execute in CBMC, DESIGN 2.5)"],
    "kani": [
        K("SrtpContext::new => well_formed (SHA1_80)", "c05_new_well_formed_sha80", "quick", "proof", ["SrtpContext::new", "SrtpContext::derive_keys", "SrtpContext::kdf"],
          "for every master key/salt and ssrc: Ok(c) with both HMAC prototypes present (authentication can never be skipped), fresh index state, key/salt/auth lengths per profile"),
        K("SrtpContext::new => well_formed (GCM)", "c05_new_well_formed_gcm", "quick", "proof", ["SrtpContext::new", "SrtpContext::derive_keys"],
          "both AEAD ciphers present, 12-byte salts"),
        K("SrtpContext::new => well_formed (SHA1_32)", "c05_new_well_formed_sha32", "thorough", "proof", ["SrtpContext::new"], "same"),
        K("SrtpContext::new => well_formed (NULL)", "c05_new_well_formed_null", "thorough", "proof", ["SrtpContext::new"], "same"),
        K("SrtpContext::new rejects short keying", "c05_new_rejects_short_keying", "quick", "bounded", ["SrtpContext::new"],
          "master key < 16 or salt < salt_len => Err, no panic", bound="lengths 15/14, 16/13, 16/11"),
        K("constant_time_eq == slice equality", "c05_constant_time_eq_spec", "quick", "proof", ["constant_time_eq"],
          "constant_time_eq(a,b) == (a==b) for every pair of slices of length <= 20 (= SHA1_LEN, every reachable size)"),
        K("unprotect_rtcp HMAC-80: frame + tag over all bytes (22 B, fixed key)", "c05_unprotect_rtcp_hmac80_22_fixedkey", "quick", "bounded",
          ["SrtpContext::unprotect_rtcp", "SrtpContext::auth_tag_rtcp_into", "constant_time_eq"],
          "Err => (roc,last_seq,rtcp_index) unchanged; Ok => tag == MAC(k, packet[..len-10])[..10], output = packet minus index and tag, index advances only to the authenticated value",
          bound="packet = 22 bytes (8 header + 0 body + 4 index + 10 tag), symbolic content and context state, one concrete auth key; " + HM, timeout=600),
        K("unprotect_rtcp AES_CM_128_HMAC_SHA1_32: frame + full 80-bit tag (22 B)", "c05_unprotect_rtcp_sha32_22_fixedkey", "quick", "bounded",
          ["SrtpContext::unprotect_rtcp", "SrtpContext::auth_tag_rtcp_into", "constant_time_eq"],
          "same contract under the _32 profile: ALL 10 bytes of the SRTCP tag (RFC 5764 4.1.2) are verified, not just the 4 bytes of the SRTP tag length",
          bound="packet = 22 bytes (8 header + 0 body + 4 index + 10 tag), one concrete auth key; " + HM, timeout=600),
        K("unprotect_rtcp AES_CM_128_HMAC_SHA1_80: frame + tag (22 B)", "c05_unprotect_rtcp_sha80_22_fixedkey", "thorough", "bounded",
          ["SrtpContext::unprotect_rtcp", "SrtpContext::auth_tag_rtcp_into", "constant_time_eq"],
          "same contract under the _80 profile", bound="packet = 22 bytes, one concrete auth key; " + HM, timeout=600),
        K("unprotect_rtcp HMAC-80: frame + tag over all bytes (26 B, any key)", "c05_unprotect_rtcp_hmac80_26_anykey", "thorough", "bounded",
          ["SrtpContext::unprotect_rtcp", "SrtpContext::auth_tag_rtcp_into", "constant_time_eq"],
          "same contract, symbolic 20-byte auth key",
          bound="packet = 26 bytes, symbolic content, state and key; " + HM, timeout=1800),
        K("unprotect_rtcp GCM: frame + AEAD open (32 B)", "c05_unprotect_rtcp_gcm_32", "quick", "bounded",
          ["SrtpContext::unprotect_rtcp", "SrtpContext::build_gcm_rtcp_nonce"],
          "Err => crypto state unchanged (the SRTCP index advances only on an authenticated packet); Ok => AEAD opens with AAD = header(8)||index word, nonce = RFC 7714 9.1, tag = 16 bytes before the index",
          bound="packet = 32 bytes (8 hdr + 4 ct + 16 tag + 4 index), symbolic content and state, one concrete key; aes-gcm substitute", timeout=600),
        K("unprotect_rtcp GCM: frame + AEAD open (28 B, empty body)", "c05_unprotect_rtcp_gcm_28", "quick", "bounded",
          ["SrtpContext::unprotect_rtcp", "SrtpContext::build_gcm_rtcp_nonce"],
          "same contract on the smallest GCM packet", bound="packet = 28 bytes (8 hdr + 0 ct + 16 tag + 4 index); aes-gcm substitute", timeout=600),
        K("unprotect_rtcp short input (NULL, 0 B)", "c05_unprotect_rtcp_short_null_0", "quick", "bounded", ["SrtpContext::unprotect_rtcp"],
          "Err(PacketTooShort), state unchanged", bound="length 0, profile NullCipherHmac"),
        K("unprotect_rtcp short input (SHA1_32, 7 B)", "c05_unprotect_rtcp_short_sha32_7", "quick", "bounded", ["SrtpContext::unprotect_rtcp"],
          "Err(PacketTooShort), state unchanged", bound="length 7 (< 4+4), profile Aes128Sha1_32"),
        K("unprotect_rtcp short input (SHA1_80, 13 B)", "c05_unprotect_rtcp_short_sha80_13", "quick", "bounded", ["SrtpContext::unprotect_rtcp"],
          "Err(PacketTooShort), state unchanged", bound="length 13 (< 10+4), profile Aes128Sha1_80"),
        K("unprotect_rtcp short input (GCM, 19 B)", "c05_unprotect_rtcp_short_gcm_19", "quick", "bounded", ["SrtpContext::unprotect_rtcp"],
          "Err(PacketTooShort), state unchanged", bound="length 19 (< 16+4), profile AeadAes128Gcm"),
        K("estimate_roc contract (callee of unprotect)", "c04_estimate_roc_contract", "quick", "proof", ["SrtpContext::estimate_roc"],
          "RFC 3711 3.3.1 value AND frame: estimating (which runs before authentication) does not touch rollover counter, last sequence or SRTCP index"),
        K("update contract (callee of unprotect)", "c04_update_contract", "quick", "proof", ["SrtpContext::update"],
          "writes only rollover_counter/last_sequence, to max(old index, new index)"),
        K("unprotect HMAC-80: frame + tag, callees by contract (body 10 B, fixed key)", "c05_unprotect_hmac80_body10_fixedkey_modular", "quick", "bounded",
          ["SrtpContext::unprotect", "RtpHeader::write_to", "constant_time_eq"],
          "Err => crypto state unchanged; Ok => body tail == MAC(k, header image || body || roc_be)[..10]; estimate_roc/update replaced by their verified contracts (kani::stub_verified)",
          bound="12-byte header (all fields symbolic), body = 0 payload + 10 tag, one concrete key; " + HM, timeout=900),
        K("unprotect HMAC-80: frame + tag over header||body||ROC (body 10 B, fixed key)", "c05_unprotect_hmac80_body10_fixedkey", "thorough", "bounded",
          ["SrtpContext::unprotect", "SrtpContext::estimate_roc", "SrtpContext::update", "RtpHeader::write_to", "constant_time_eq"],
          "Err => crypto state unchanged; Ok => body tail == MAC(k, header image || body || roc_be)[..10] with roc = RFC 3711 estimate, state advanced per post_update",
          bound="12-byte header (all fields symbolic), body = 0 payload + 10 tag, one concrete key; " + HM, timeout=900),
        K("unprotect HMAC-80: frame + tag (body 14 B, any key)", "c05_unprotect_hmac80_body14_anykey", "thorough", "bounded",
          ["SrtpContext::unprotect", "SrtpContext::estimate_roc", "SrtpContext::update", "RtpHeader::write_to", "constant_time_eq"],
          "same contract, 4-byte payload, symbolic key",
          bound="12-byte header, body = 4 payload + 10 tag, symbolic key; " + HM, timeout=1800),
        K("unprotect GCM: frame + AEAD open (body 18 B)", "c05_unprotect_gcm_body18", "thorough", "bounded",
          ["SrtpContext::unprotect", "SrtpContext::build_gcm_nonce"],
          "Err => crypto state unchanged; Ok => AEAD opens with AAD = header image, nonce = RFC 7714 8.1 (seq, estimated roc), tag = last 16 bytes",
          bound="12-byte header, body = 2 ct + 16 tag, one concrete key; aes-gcm substitute", timeout=1800),
        K("unprotect short body (NULL, 0 B)", "c05_unprotect_short_null_0", "quick", "bounded", ["SrtpContext::unprotect"],
          "Err(PacketTooShort), state unchanged", bound="body length 0"),
        K("unprotect short body (SHA1_32, 3 B)", "c05_unprotect_short_sha32_3", "quick", "bounded", ["SrtpContext::unprotect"],
          "Err(PacketTooShort), state unchanged", bound="body length 3"),
        K("unprotect short body (SHA1_80, 9 B)", "c05_unprotect_short_sha80_9", "quick", "bounded", ["SrtpContext::unprotect"],
          "Err(PacketTooShort), state unchanged", bound="body length 9"),
        K("unprotect short body (GCM, 15 B)", "c05_unprotect_short_gcm_15", "quick", "bounded", ["SrtpContext::unprotect"],
          "Err(PacketTooShort), state unchanged", bound="body length 15"),
        K("canary: estimate_roc always returns roc", "canary_estimate_roc_always_roc", "quick", "canary", ["SrtpContext::estimate_roc"],
          "false claim, must FAIL", expect="fail"),
    ],
    "verus": [
        V("SrtpSession: a rejected packet disturbs no SSRC's state (Verus)", "srtp_session_reject", "quick", "proof",
          ["SrtpSession::unprotect_rtp", "SrtpSession::unprotect_rtcp"],
          "verbatim session functions over the vstd HashMap/Entry specs, modular over the context-level contract (Err => ROC, s_l, SRTCP index unchanged): if the session returns Err, the packet's SSRC still has its context with the same (ROC, s_l, SRTCP index) (a context created by the rejected packet itself is in the initial state), no other SSRC's context is modified or — up to the 32-context eviction threshold — removed, and the transmit table is untouched; lemma rejected_packet_disturbs_nothing lifts this to every SSRC the session held",
          min_verified=6),
    ],
}

# =============================================================================== C03
DM = "transports::dtls"
TRACE_STUBS = ["stubs: tracing::callsite::DefaultCallsite::interest / __is_enabled / Event::dispatch (logging is a no-op; a reachable thread_local! crashes the Kani compiler)"]
PROPS["C03"] = {
    "level": "proof",
    "explanation": "record-acceptance gate try_decrypt_record for all epochs / 48-bit sequence numbers / content types / key states / roles; AAD layout; decrypt_record_with_cipher nonce/AAD/tag layout; encrypt/decrypt round trip with explicit nonce == record sequence",
    "trusted_base": CRYPTO_TRUSTED[1:2] + TRACE_STUBS + [
        "recording stubs for decrypt_record / decrypt_record_with_cipher inside the gate obligations (the callees have their own obligations c03_decrypt_*)",
        "DtlsInner handed to try_decrypt_record as uninitialised memory (the function never reads self; a read would be flagged)",
        "HandshakeContext built literally by the harness"],
    "kani": [
        K("gate: no keys", "c03_gate_no_keys", "quick", "proof", ["DtlsInner::try_decrypt_record"],
          "for every epoch, seq, type, version, role: epoch!=0 => Err; Ok(ApplicationData) => epoch!=0; what epoch 0 lets through is the record's payload unchanged (cover: a Handshake record is accepted)",
          module=DM, min_covers=1),
        K("gate: session_keys", "c03_gate_session_keys", "quick", "proof", ["DtlsInner::try_decrypt_record"],
          "whatever a protected epoch accepts is exactly decrypt_record(type, version, epoch*2^48|seq, payload) under the PEER's write key/iv (soundness; rejecting more is allowed, a cover keeps it non-vacuous); Ok(ApplicationData) or Ok(Alert) => epoch!=0",
          module=DM),
        K("gate: session_crypto", "c03_gate_session_crypto", "quick", "proof", ["DtlsInner::try_decrypt_record"],
          "same with the cached-cipher path decrypt_record_with_cipher", module=DM),
        K("make_aad layout", "c03_make_aad_spec", "quick", "proof", ["make_aad"],
          "in-place kani::requires(len <= 65535) + kani::ensures: aad == seq(8) || type || major || minor || len(2)", module=DM),
        K("decrypt_record_with_cipher layout (28 B)", "c03_decrypt_with_cipher_28", "quick", "bounded", ["decrypt_record_with_cipher", "make_aad"],
          "Ok(p) iff AEAD opens with nonce = iv||payload[0..8], AAD = make_aad(seq,type,version,|ct|), tag = last 16; p == plaintext",
          bound="payload = 28 bytes (8 nonce + 4 ct + 16 tag), symbolic iv/seq/content; aes-gcm substitute", module=DM, timeout=600),
        K("decrypt_record_with_cipher short (23 B)", "c03_decrypt_with_cipher_short_23", "quick", "bounded", ["decrypt_record_with_cipher"],
          "payload shorter than 8+16 => Err, no panic", bound="payload = 23 bytes", module=DM, min_covers=0),
        K("decrypt_record_with_cipher short (0 B)", "c03_decrypt_with_cipher_short_0", "quick", "bounded", ["decrypt_record_with_cipher"],
          "empty payload => Err, no panic", bound="payload = 0 bytes", module=DM, min_covers=0),
        K("encrypt_record∘decrypt_record (4 B)", "c03_encrypt_decrypt_roundtrip_4", "quick", "bounded", ["encrypt_record", "decrypt_record", "make_aad"],
          "decrypt(encrypt(p)) == p; wire explicit nonce == seq (a fresh sequence number gives a fresh nonce)",
          bound="plaintext = 4 bytes, symbolic iv/seq/type; aes-gcm substitute", module=DM, timeout=600),
        K("DtlsRecord::encode layout (4 B payload)", "c03_record_encode_layout_4", "quick", "bounded", ["DtlsRecord::encode"],
          "type | version | epoch | 48-bit sequence | length | payload, for every field value", bound="payload 4 bytes", module=RCM),
        K("DtlsRecord::decode fields (17 B)", "c03_record_decode_fields_17", "quick", "bounded", ["DtlsRecord::decode"],
          "Ok(Some) iff valid type and declared length fits: epoch, 48-bit sequence number, version, payload recovered exactly; Ok(None) iff incomplete; Err iff unknown content type",
          bound="input 17 bytes, symbolic content (length field symbolic)", module=RCM),
        K("create_session_crypto binds keys to roles", "c03_create_session_crypto_binds_keys_to_roles", "quick", "bounded", ["create_session_crypto"],
          "the cached client/server write ciphers behave exactly like ciphers built from the client/server write keys (no role mix-up); keys and IVs carried over unchanged — for every key pair",
          bound="checked through one AEAD seal per cipher (4-byte plaintext); aes-gcm substitute", module=DM, timeout=600),
        K("expand_keys key-block order (RFC 5246 6.3)", "c03_expand_keys_block_order", "quick", "bounded", ["expand_keys", "prf_sha256"],
          "key_block = PRF(master, \"key expansion\", server_random || client_random); client key | server key | client IV | server IV cut in that order",
          bound="4-byte master secret, 2-byte randoms (symbolic); hmac substitute", module=DM, timeout=900),
        K("DtlsRecord decode∘encode (4 B payload)", "c03_record_roundtrip_4", "quick", "bounded", ["DtlsRecord::encode", "DtlsRecord::decode"],
          "decode(encode(r)) == r for every content type, version, epoch, 48-bit sequence number and payload; buffer consumed", bound="payload 4 bytes; length octets asserted then re-written as literals", module=RCM, timeout=600),
        K("canary: gate rejects every epoch-0 record", "canary_gate_rejects_all_epoch0", "quick", "canary", ["DtlsInner::try_decrypt_record"],
          "false claim, must FAIL", expect="fail", module=DM),
    ],
    "verus": [
        V("record dispatch: only what the gate returned reaches the upper layer / state machine (Verus)", "dtls_record_dispatch", "quick", "proof",
          ["DtlsInner::handle_incoming_packet", "DtlsRecord::decode"],
          "verbatim handle_incoming_packet (one task's sequential reading) with the real DtlsRecord::decode under 'a decoded record consumes >= 13 octets': every (content type, payload) handed to handle_decrypted_record is the Ok result of try_decrypt_record for that very record (sink precondition established only by the gate's contract); a rejected record ends the datagram; the record walker terminates",
          min_verified=5),
    ],
}

# =============================================================================== C15
RM = "rtp"
PROPS["C15"] = {
    "level": "proof",
    "explanation": "inverse laws of the RTCP/RTP field codecs against spec functions written from RFC 3550/4585/5104/8285; fixed-size codecs over their full field domain are unbounded (kind proof), variable-length ones are bounded stand-ins",
    "trusted_base": ["header extension data handed over as Bytes::from_static (representation independence of Bytes assumed)"],
    "kani": [
        K("build_report_block contract (RFC 3550 6.4.1)", "c15_build_report_block_contract", "quick", "proof", ["build_report_block"],
          "in-place kani::ensures: byte layout, 24-bit two's complement cumulative loss clamped to [-2^23, 2^23-1], for every ReportBlock", module=RM),
        K("report block inverse + sign extension", "c15_report_block_inverse", "quick", "proof", ["build_report_block", "parse_report_block"],
          "parse(build(b)) == b for representable loss, clamped otherwise; for EVERY 24 bytes parse sign-extends correctly and build(parse(raw)) == raw", module=RM),
        K("REMB bitrate round trip (every u64)", "c15_remb_bitrate_roundtrip", "quick", "proof", ["build_remb_body", "parse_remb_body"],
          "6-bit exponent, mantissa < 2^18; decoded == input with the low exp bits cleared (within one unit of the last place); exact below 2^18 (exponent loop fully unwound, unwinding assertion on)", module=RM),
        K("REMB ssrc list (2)", "c15_remb_ssrc_list_2", "quick", "bounded", ["build_remb_body", "parse_remb_body"],
          "parse(build(r)) == r", bound="2 SSRC entries", module=RM),
        K("SR body round trip (0 blocks)", "c15_sender_report_roundtrip_0", "quick", "proof", ["build_sender_report_body", "parse_sender_report"],
          "layout + parse(build(sr)) == sr over the full field domain", module=RM),
        K("SR body round trip (1 block)", "c15_sender_report_roundtrip_1", "quick", "bounded", ["build_sender_report_body", "parse_sender_report", "build_report_block", "parse_report_block"],
          "parse(build(sr)) == sr", bound="1 report block", module=RM),
        K("RR body round trip (1 block)", "c15_receiver_report_roundtrip_1", "quick", "bounded", ["build_receiver_report_body", "parse_receiver_report"],
          "parse(build(rr)) == rr", bound="1 report block", module=RM),
        K("PLI round trip", "c15_pli_roundtrip", "quick", "proof", ["build_psfb_common", "parse_psfb_common"], "layout + inverse for every ssrc pair", module=RM),
        K("FIR round trip (2 entries)", "c15_fir_roundtrip_2", "quick", "bounded", ["build_fir_body", "parse_fir_body"],
          "layout (reserved bytes zero) + inverse", bound="2 FIR entries", module=RM),
        K("TWCC round trip (4-byte payload)", "c15_twcc_roundtrip_4", "quick", "bounded", ["build_twcc_body", "parse_twcc_body"],
          "24-bit reference time big-endian; inverse", bound="4 payload bytes", module=RM),
        K("NACK set preserved (2 seqs)", "c15_nack_set_preserved_2", "quick", "bounded", ["pack_nack_pairs"],
          "the set of lost sequence numbers decoded per RFC 4585 6.2.1 equals the input set, incl. across 65535->0; BLP names only pid+1..pid+16",
          bound="2 arbitrary u16 sequence numbers; <[u16]>::sort_unstable and Vec::dedup replaced by an insertion sort / simple dedup (assumed contract: std sorts and dedups)", module=RM),
        K("NACK set preserved (3 seqs)", "c15_nack_set_preserved_3", "quick", "bounded", ["pack_nack_pairs"],
          "same", bound="3 arbitrary u16 sequence numbers", module=RM, timeout=600),
        K("NACK set preserved (4 seqs)", "c15_nack_set_preserved_4", "thorough", "bounded", ["pack_nack_pairs"],
          "same", bound="4 arbitrary u16 sequence numbers", module=RM, timeout=1200),
        K("parse_nack_body: BLP = 0x8000 (PID+16)", "c15_parse_nack_blp_top_bit", "quick", "bounded", ["parse_nack_body"],
          "lost_packets == [PID, PID+16] for every PID (wrapping); SSRCs recovered", bound="body = 8 + one FCI, BLP literal 0x8000, rest symbolic", module=RM, timeout=600),
        K("parse_nack_body: BLP = 0xFFFF", "c15_parse_nack_blp_all_bits", "quick", "bounded", ["parse_nack_body"],
          "lost_packets == [PID, PID+1, .., PID+16] in order for every PID (wrapping)", bound="BLP literal 0xFFFF", module=RM, timeout=600),
        K("parse_nack_body: BLP = 0x0001", "c15_parse_nack_blp_low_bit", "quick", "bounded", ["parse_nack_body"],
          "lost_packets == [PID, PID+1]", bound="BLP literal 0x0001", module=RM, timeout=600),
        K("write_rtcp_packet framing (5 B)", "c15_write_rtcp_packet_5", "quick", "bounded", ["write_rtcp_packet"],
          "V=2, 5-bit count, body zero-padded to 32 bits, length == words-1", bound="body 5 bytes", module=RM),
        K("write_rtcp_packet framing (8 B)", "c15_write_rtcp_packet_8", "quick", "bounded", ["write_rtcp_packet"], "same", bound="body 8 bytes", module=RM),
        K("write_rtcp_packet framing (0 B)", "c15_write_rtcp_packet_0", "quick", "bounded", ["write_rtcp_packet"], "same", bound="body 0 bytes", module=RM),
        K("is_rtcp range", "c15_is_rtcp_range", "quick", "proof", ["is_rtcp"], "true iff len >= 2 and 192 <= pt <= 208", module=RM),
        K("RTP header layout (2 CSRC)", "c15_header_write_to_layout_csrc2", "quick", "bounded", ["RtpHeader::write_to", "RtpHeader::encoded_len", "RtpHeader::validate"],
          "RFC 3550 5.1 layout for every field value; encoded_len == bytes written", bound="2 CSRCs, no extension", module=RM),
        K("RTP header layout (8-byte extension)", "c15_header_write_to_layout_ext8", "quick", "bounded", ["RtpHeader::write_to", "RtpHeader::encoded_len"],
          "X bit, profile, length in words, data", bound="extension data 8 bytes", module=RM),
        K("RtpHeader::validate exact", "c15_header_validate_exact", "quick", "bounded", ["RtpHeader::validate"],
          "rejects exactly > 15 CSRCs and unaligned extension data", bound="<= 17 CSRCs, extension <= 7 bytes", module=RM),
        K("get_extension one-byte form (8 B)", "c15_get_extension_onebyte_8", "quick", "bounded", ["RtpHeader::get_extension"],
          "equals a reference walk written from RFC 8285 4.2: exactly the element's bytes, never past the block",
          bound="extension block of 8 symbolic bytes", module=RM, timeout=600),
        K("get_extension one-byte form (12 B)", "c15_get_extension_onebyte_12", "thorough", "bounded", ["RtpHeader::get_extension"],
          "same", bound="12 symbolic bytes", module=RM, timeout=1200),
        K("get_extension two-byte form (8 B)", "c15_get_extension_twobyte_8", "quick", "bounded", ["RtpHeader::get_extension"],
          "equals a reference walk written from RFC 8285 4.3", bound="8 symbolic bytes", module=RM, timeout=600),
        K("set_extension then get_extension (no previous extension)", "c15_set_get_extension_fresh", "quick", "bounded", ["RtpHeader::set_extension", "RtpHeader::get_extension", "RtpHeader::validate"],
          "a 0xBEDE block is created, 32-bit aligned; get(id) returns the value; header still valid (element order / padding placement left free)",
          bound="header without extension, 3-byte value, every id 1..14", module=RM, timeout=900),
        K("set_extension rejects invalid id / length", "c15_set_extension_rejects_bad_args", "quick", "bounded", ["RtpHeader::set_extension"],
          "id 0 or >= 15, empty or > 16-byte value => Err, header untouched", bound="header without extension", module=RM, timeout=600),
        K("set_extension next to / over existing elements (literal framing)", "c15_set_extension_existing_literal", "quick", "bounded", ["RtpHeader::set_extension", "RtpHeader::get_extension"],
          "adding id 2 leaves ids 1 and 3 reading back unchanged; replacing id 1 by a longer value keeps the others; block stays aligned; unknown id is None",
          bound="received block 10 v 30 w (framing octets literal, values symbolic), 2-byte value", module=RM, timeout=900),
        K("RtpPacket::parse_bytes∘marshal (3 B payload)", "c15_packet_marshal_parse_p3", "quick", "bounded", ["RtpPacket::marshal", "RtpPacket::parse_bytes", "RtpHeader::parse", "RtpHeader::write_to"],
          "parsing what marshal emitted returns the same header fields, payload and padding count", bound="12-byte header (no CSRC / extension), 3 payload bytes, parsed from a static Bytes", module=RM),
        K("RtpPacket::parse_bytes∘marshal (2 B payload, 2 B padding)", "c15_packet_marshal_parse_p2_pad2", "quick", "bounded", ["RtpPacket::marshal", "RtpPacket::parse_bytes"],
          "same with padding: P bit set, padding count octet, payload boundary", bound="12-byte header, 2 payload bytes, padding 2", module=RM),
        K("OSN codec (RFC 4588)", "c15_osn_codec", "quick", "proof", ["encode_osn", "decode_osn"], "big-endian, inverse for every u16, None below 2 bytes", module="rtx"),
        K("RTX wrap then unwrap (3 B payload)", "c15_rtx_wrap_unwrap_p3", "quick", "bounded", ["wrap_rtx_packet", "unwrap_rtx_packet"],
          "RTX packet carries rtx ssrc/pt/seq, the original timestamp and marker, OSN || payload; unwrap restores sequence number, timestamp, marker, payload", bound="3 payload bytes", module="rtx"),
        K("BYE build∘parse (literal reason)", "c15_bye_roundtrip_literal_reason", "quick", "bounded", ["build_goodbye_body", "parse_goodbye"],
          "layout (ssrc, length octet, text) and parse(build(b)) == b", bound="one source, reason \"bye\"", module=RM),
        K("SDES build∘parse (literal CNAME)", "c15_sdes_roundtrip_literal_cname", "quick", "bounded", ["build_sdes_body", "parse_sdes"],
          "parse(build(s)) == s: ssrc, item type and text recovered", bound="one chunk, one item, text \"ab\"", module=RM),
        K("SR body round trip (2 blocks)", "c15_sender_report_roundtrip_2", "thorough", "bounded", ["build_sender_report_body", "parse_sender_report"], "parse(build(sr)) == sr", bound="2 report blocks", module=RM, timeout=1200),
        K("REMB ssrc list (3)", "c15_remb_ssrc_list_3", "thorough", "bounded", ["build_remb_body", "parse_remb_body"], "parse(build(r)) == r", bound="3 SSRC entries", module=RM, timeout=1200),
        K("FIR round trip (3 entries)", "c15_fir_roundtrip_3", "thorough", "bounded", ["build_fir_body", "parse_fir_body"], "inverse", bound="3 FIR entries", module=RM, timeout=1200),
        K("TWCC round trip (8-byte payload)", "c15_twcc_roundtrip_8", "thorough", "bounded", ["build_twcc_body", "parse_twcc_body"], "inverse", bound="8 payload bytes", module=RM, timeout=1200),
        K("marshal_rtcp_packets: PLI layout", "c15_marshal_rtcp_pli_layout", "quick", "bounded", ["marshal_rtcp_packets", "write_rtcp_packet", "build_psfb_common"],
          "V=2, FMT=1, PT=206, length 2, both SSRCs", bound="one PLI", module=RM),
        K("marshal_rtcp_packets: RR + PLI compound layout", "c15_marshal_rtcp_rr_then_pli_layout", "quick", "bounded", ["marshal_rtcp_packets", "write_rtcp_packet", "build_receiver_report_body"],
          "count field, packet types, length words, second sub-packet starts right after the first", bound="RR with one block followed by a PLI", module=RM, timeout=600),
        K("compound round trip RR + PLI through the real walker", "c15_rtcp_compound_roundtrip_rr_pli", "quick", "bounded", ["marshal_rtcp_packets", "parse_rtcp_packets", "parse_receiver_report", "parse_rtcp_psfb"],
          "parse_rtcp_packets(marshal_rtcp_packets([RR, PLI])) == [RR, PLI] for every field value", bound="RR with one block followed by a PLI; the framing octets marshal emitted are asserted, then re-written as literals", module=RM, timeout=900),
        K("RR count field == blocks serialised (31 blocks)", "c15_rr_count_field_31_blocks", "quick", "bounded", ["marshal_rtcp_packets", "build_receiver_report_body", "write_rtcp_packet"],
          "whatever marshal emits, the 5-bit RC field equals the number of report blocks in the body and the length field matches", bound="31 report blocks (the largest count RC can announce)", module=RM, timeout=900),
        K("RR count field == blocks serialised (32 blocks)", "c15_rr_count_field_32_blocks", "quick", "bounded", ["marshal_rtcp_packets", "build_receiver_report_body", "write_rtcp_packet"],
          "a report with more blocks than RC can announce is rejected (or split) — never emitted with a wrapped count", bound="32 report blocks", module=RM, timeout=900),
        K("canary: report block inverse without clamping", "canary_report_block_unclamped", "quick", "canary", ["build_report_block"], "false claim, must FAIL", expect="fail", module=RM),
    ],
    "verus": [
        V("NACK packing preserves the set of lost sequence numbers, any list length (Verus)", "rtcp_nack_set", "quick", "proof",
          ["pack_nack_pairs", "parse_nack_body"],
          "verbatim pack_nack_pairs and parse_nack_body against RFC 4585 6.2.1 (PID lost; BLP bit i set <=> PID+i+1 lost, mod 2^16): for ANY list of sequence numbers the emitted (PID, BLP) pairs cover exactly the set of the list (loop invariants + a bit-vector lemma for blp |= 1 << k); for ANY FCI the expanded list contains exactly the numbers its pairs cover. sort_unstable / dedup enter through assumed contracts (sorted permutation; strictly increasing, same set)",
          min_verified=9),
    ],
}

# =============================================================================== C16
SM, IM = "transports::ice::stun", "transports::ice"
PROPS["C16"] = {
    "level": "proof",
    "explanation": "XOR-address codec inverse and layout (v4/v6, every address/port/transaction id), candidate-priority formula/range/ordering, pair-priority formula, overflow freedom and symmetry: unbounded. encode_stun_message MI/FINGERPRINT coverage and attribute framing: bounded stand-ins.",
    "trusted_base": ["recording stubs for hmac_sha1 / crc32 inside the encode obligations (what is fed to them and where the result lands is checked; SHA-1/CRC values are not)"],
    "kani": [
        K("XOR address v4 layout + inverse", "c16_xor_address_v4_layout_and_inverse", "quick", "proof", ["append_xor_address", "parse_xor_address"],
          "RFC 5389 15.2 layout and parse(append(a)) == a for every IPv4 address, port, transaction id, attribute type", module=SM),
        K("XOR address v6 layout + inverse", "c16_xor_address_v6_layout_and_inverse", "quick", "proof", ["append_xor_address", "parse_xor_address"],
          "v6 XOR key = cookie || transaction id; inverse for every IPv6 address", module=SM),
        K("pad_four_bytes all residues", "c16_pad_four_bytes_all_residues", "quick", "proof", ["pad_four_bytes"], "pads with zeros to the next multiple of 4 for every residue", module=SM),
        K("append_raw_attribute (0 B)", "c16_raw_attribute_len_0", "quick", "bounded", ["append_raw_attribute", "pad_four_bytes"],
          "type | UNpadded length | value | zero padding", bound="value 0 bytes", module=SM),
        K("append_raw_attribute (5 B)", "c16_raw_attribute_len_5", "quick", "bounded", ["append_raw_attribute", "pad_four_bytes"], "same", bound="value 5 bytes", module=SM),
        K("append_raw_attribute (7 B)", "c16_raw_attribute_len_7", "quick", "bounded", ["append_raw_attribute", "pad_four_bytes"], "same", bound="value 7 bytes", module=SM),
        K("encode: MI + FINGERPRINT coverage (no attributes)", "c16_encode_empty_mi_fp", "quick", "bounded",
          ["encode_stun_message", "append_raw_attribute", "update_length_field", "write_length_field"],
          "type bits for every method x class, cookie, txid; MI over exactly the preceding bytes with length counting MI; FP = crc(prefix, length counting FP) ^ 0x5354554e, last; final length == len-20",
          bound="empty attribute list; hmac_sha1/crc32 recording stubs", module=SM, timeout=600),
        K("hmac_sha1 wrapper", "c16_hmac_sha1_wrapper", "quick", "bounded", ["hmac_sha1"],
          "returns the 20-byte HMAC of exactly the given data under exactly the given key (the function the encode obligations replace by a recording stub)",
          bound="5-byte key, 7-byte data (symbolic); hmac substitute", module=SM, timeout=600),
        K("encode: plain length field", "c16_encode_plain_length", "quick", "bounded", ["encode_stun_message", "append_attribute"],
          "no MI/FP: length == len-20, LIFETIME layout", bound="1 LIFETIME attribute", module=SM, timeout=600),
        K("decode: Binding success + XOR-MAPPED-ADDRESS v4 (literal framing)", "c16_decode_xor_mapped_v4_literal", "quick", "bounded", ["decode_stun_message", "parse_xor_address"],
          "class, method, transaction id recovered; address/port un-XORed with the cookie; no other field set",
          bound="32-byte message; type/length/attribute-header octets literal, transaction id / port / address symbolic", module=SM, timeout=900),
        K("decode: unknown attribute + padding skipped, LIFETIME decoded (literal framing)", "c16_decode_skips_padding_literal", "quick", "bounded", ["decode_stun_message"],
          "an unknown attribute with length 5 is skipped together with its 3 padding bytes; the LIFETIME after it is recovered", bound="40-byte message; framing octets literal, values symbolic", module=SM, timeout=900),
        K("decode: ERROR-CODE, XOR-RELAYED, XOR-PEER (literal framing)", "c16_decode_error_and_relayed_literal", "quick", "bounded", ["decode_stun_message", "parse_xor_address"],
          "error code == class*100+number; relayed and peer addresses land in their own fields, un-XORed", bound="52-byte message; framing octets literal, values symbolic", module=SM, timeout=900),
        K("decode: length-field mismatch rejected", "c16_decode_length_mismatch_rejected", "quick", "bounded", ["decode_stun_message"],
          "header length != datagram length - 20 => Err for every content", bound="24-byte datagram", module=SM, timeout=900),
        K("decode: trailing zero-length attribute is visited (24 B)", "c16_decode_24_trailing_zero_length_attr", "quick", "bounded", ["decode_stun_message"],
          "for every 24-byte message whose single attribute has length 0: use_candidate == (type == 0x0025); transaction id recovered",
          bound="message = 20-byte header + one 4-byte attribute header", module=SM, timeout=900),
        K("decode(encode) Binding request + USE-CANDIDATE", "c16_decode_of_encode_use_candidate", "quick", "bounded", ["decode_stun_message", "encode_stun_message"],
          "the flag attribute survives the round trip", bound="one zero-length attribute, no MI/FP", module=SM, timeout=900),
        K("priority_for contract (RFC 8445 5.1.2.1)", "c16_priority_for_contract", "quick", "proof", ["IceCandidate::priority_for"],
          "in-place kani::requires(component >= 1) + kani::ensures: three-field layout 2^24*type_pref (<= 126) + 2^8*local_pref + (256-min(component,256)), <= 0x7EFFFFFF, for every type and valid component id", module=IM),
        K("priority ordering", "c16_priority_ordering", "quick", "proof", ["IceCandidate::priority_for"], "host > prflx > srflx > relay > 0; lower component id wins", module=IM),
        K("priority_for_tcp (RFC 6544 4.1)", "c16_priority_for_tcp_spec", "quick", "proof", ["IceCandidate::priority_for_tcp"],
          "same formula with local preference passive > active > so; never above the UDP priority", module=IM),
        K("pair priority contract (RFC 8445 6.1.2.3)", "c16_pair_priority_contract", "quick", "proof", ["IceCandidatePair::priority"],
          "in-place kani::requires(local.priority <= 0x7EFFFFFF) + kani::ensures: == 2^32*min(G,D) + 2*max(G,D) + (G>D) computed in u128 (no u64 overflow) for ANY remote priority and both roles", module=IM),
        K("pair priority formula, no overflow, symmetry", "c16_pair_priority_formula_and_symmetry", "quick", "proof", ["IceCandidatePair::priority"],
          "== 2^32*min + 2*max + (G>D) in u128 without u64 overflow for ANY remote priority given local <= 0x7EFFFFFF; pair(a,b).priority(Controlling) == pair(b,a).priority(Controlled)", module=IM),
        K("pair ordering agreement", "c16_pair_priority_order_agreement", "quick", "proof", ["IceCandidatePair::priority"],
          "both agents order any two pairs identically", module=IM),
        K("RFC 4571 framing for STUN over TCP", "c16_frame_stun_for_tcp_layout", "quick", "bounded", ["frame_stun_for_tcp"],
          "16-bit big-endian length prefix followed by the message", bound="7-byte message", module=IM),
        K("canary: pair priority role independent", "canary_pair_priority_role_independent", "quick", "canary", ["IceCandidatePair::priority"], "false claim, must FAIL", expect="fail", module=IM),
    ],
}

# =============================================================================== C07


def _c07(names, module, fn, what):
    out = []
    for h in names:
        n = h.rsplit("_", 1)[1]
        if "walker" in h:
            what = "parse_rtcp_packets walker [%s]" % h.split("walker_")[1].rsplit("_", 1)[0]
        bound = "input length exactly %s bytes, symbolic content" % n
        if "walker" in h:
            bound = ("one sub-packet of exactly %s bytes: type octet and length-in-words field are literals (with a symbolic type or length "
                     "CBMC does not finish); version, padding bit, count, body and the padding-count octet symbolic" % n)
        out.append(K("%s total on %s bytes" % (what, n), h, "quick", "bounded", [fn],
                     "every byte string of this length yields a value or an error: no panic, overflow, out-of-bounds, unwrap on None; loops within the unwinding bound",
                     bound=bound, module=module))
    return out


PROPS["C07"] = {
    "level": "proof",
    "explanation": "Verus units (kind proof): the verbatim byte-level decoders and walkers are total for input of ANY length (indices, ranges, Buf reads, arithmetic, termination). Kani stand-ins (kind bounded, never counted as proved): every byte string of ONE concrete length through a decoder of the real crate. Not decided: what handlers do with parsed values, SDP/candidate parsers, T.38, allocation proportionality, promptness.",
    "trusted_base": ["inputs handed over as Bytes::from_static (representation independence of Bytes assumed)"],
    "kani": (
        _c07(["c07_client_hello_0", "c07_client_hello_33", "c07_client_hello_34"], HM2, "ClientHello::decode", "ClientHello::decode")
        + _c07(["c07_server_hello_0", "c07_server_hello_34", "c07_server_hello_35", "c07_server_hello_38", "c07_server_hello_42"], HM2, "ServerHello::decode", "ServerHello::decode")
        + _c07(["c07_hvr_0", "c07_hvr_2", "c07_hvr_3", "c07_hvr_8"], HM2, "HelloVerifyRequest::decode", "HelloVerifyRequest::decode")
        + _c07(["c07_ske_0", "c07_ske_3", "c07_ske_4", "c07_ske_8", "c07_ske_12"], HM2, "ServerKeyExchange::decode", "ServerKeyExchange::decode")
        + _c07(["c07_cert_0", "c07_cert_2", "c07_cert_3", "c07_cert_10"], HM2, "CertificateMessage::decode", "CertificateMessage::decode")
        + _c07(["c07_cke_0", "c07_cke_1", "c07_cke_6"], HM2, "ClientKeyExchange::decode", "ClientKeyExchange::decode")
        + _c07(["c07_finished_12"], HM2, "Finished::decode", "Finished::decode")
        + _c07(["c07_hs_msg_0", "c07_hs_msg_11", "c07_hs_msg_12", "c07_hs_msg_16"], HM2, "HandshakeMessage::decode", "HandshakeMessage::decode")
        + _c07(["c07_record_0", "c07_record_12", "c07_record_13", "c07_record_14", "c07_record_20"], RCM, "DtlsRecord::decode", "DtlsRecord::decode")
        + _c07(["c07_rtp_header_parse_0", "c07_rtp_header_parse_11", "c07_rtp_header_parse_12"], RM, "RtpHeader::parse", "RtpHeader::parse (over &[u8])")
        + [K("RtpPacket::parse_bytes total on 16 bytes (literal first octet)", "c07_rtp_packet_parse_bytes_16_literal_b0", "quick", "bounded", ["RtpPacket::parse_bytes", "RtpHeader::parse"],
             "no panic; Ok => payload length + padding count == 4", bound="16 bytes; first octet V=2, X=0, CC=0 literal, P bit and everything else symbolic", module=RM)]
        + _c07(["c07_parse_sr_0", "c07_parse_sr_24", "c07_parse_sr_52"], RM, "parse_sender_report", "parse_sender_report")
        + _c07(["c07_parse_rr_3", "c07_parse_rr_28"], RM, "parse_receiver_report", "parse_receiver_report")
        + _c07(["c07_parse_psfb_16", "c07_parse_psfb_24"], RM, "parse_rtcp_psfb", "parse_rtcp_psfb")
        + _c07(["c07_parse_nack_7"], RM, "parse_nack_body", "parse_nack_body")
        + _c07(["c07_parse_remb_15", "c07_parse_remb_24"], RM, "parse_remb_body", "parse_remb_body")
        + _c07(["c07_parse_twcc_15", "c07_parse_twcc_20"], RM, "parse_twcc_body", "parse_twcc_body")
        + _c07(["c07_parse_fir_7", "c07_parse_fir_24"], RM, "parse_fir_body", "parse_fir_body")
        + _c07(["c07_walker_unknown_4", "c07_walker_unknown_8", "c07_walker_xr_8", "c07_walker_rr_8", "c07_walker_sr_28"], RM, "parse_rtcp_packets",
               "parse_rtcp_packets walker (1 sub-packet, literal type/length)")
        + _c07(["c07_stun_decode_0", "c07_stun_decode_19", "c07_stun_decode_20"], SM, "decode_stun_message", "decode_stun_message")
        + [
            K("ClientHello::decode fields (literal framing, 42 B)", "c07_client_hello_fields_literal_42", "quick", "bounded", ["ClientHello::decode"],
              "version, random, one cipher suite, one compression method recovered, buffer consumed", bound="42 bytes; the four length octets literal, everything else symbolic", module=HM2, timeout=900),
            K("HandshakeMessage::decode header fields (14 B)", "c07_hs_msg_fields_14", "quick", "bounded", ["HandshakeMessage::decode"],
              "24-bit total length / fragment offset, message_seq, body recovered (RFC 6347 4.2.2)", bound="14 bytes; fragment_length literal 2", module=HM2, timeout=900),
            K("parse_goodbye: every reason-length octet (literal text)", "c07_parse_goodbye_symbolic_reason_len", "thorough", "bounded", ["parse_goodbye"],
              "Ok iff the declared reason length fits the body; a length pointing past the end is an error, never a panic", bound="count = 1, 8-byte body: source and reason-length octet symbolic, 3 literal text bytes", module=RM, timeout=1800),
            K("parse_goodbye: reason-length boundary values", "c07_parse_goodbye_reason_len_boundary", "quick", "bounded", ["parse_goodbye"],
              "length 3 (exact fit) accepted; 4 (one past the end) and 255 rejected; truncated source list rejected — errors, never panics", bound="count = 1, literal length octets 3 / 4 / 255, literal text, symbolic source", module=RM, timeout=600),
            K("username scanners reject short datagrams", "c07_username_from_stun_short", "quick", "bounded", ["username_from_stun_bytes", "peer_ufrag_from_binding_request"],
              "None below 20 bytes", bound="19 bytes symbolic", module="transports::ice::shared_tcp"),
            K("username attribute length past the end (literal framing)", "c07_username_len_past_end_literal", "quick", "bounded", ["username_from_stun_bytes"],
              "the scan stops, no panic, None", bound="32-byte message, USERNAME length octet symbolic >= 9", module="transports::ice::shared_tcp", timeout=600),
            K("H264Depacketizer::push STAP-A (7 B payload)", "c07_h264_stap_a_7", "quick", "bounded", ["H264Depacketizer::push"],
              "no panic for every aggregation-unit length field; at most two NAL units emitted, each inside the payload", bound="payload 7 bytes: NAL type 24 literal, F/NRI and everything else symbolic; fresh depacketizer", module="media::depacketizer", timeout=600),
            K("H264Depacketizer::push FU-A (two 4 B payloads)", "c07_h264_fu_a_two_packets_4", "quick", "bounded", ["H264Depacketizer::push"],
              "start / continuation / end bits, sequence and timestamp continuity: no panic over two consecutive packets with symbolic FU headers, sequence numbers and timestamps", bound="two packets with 4-byte payloads, NAL type 28 literal", module="media::depacketizer", timeout=600),
            K("H264Depacketizer::push FU-A (1 B payload)", "c07_h264_fu_a_1", "quick", "bounded", ["H264Depacketizer::push"],
              "an FU indicator without FU header yields no sample and no panic", bound="payload 1 byte", module="media::depacketizer"),
            K("parse_xor_address total (<= 20 B)", "c07_parse_xor_address_total", "quick", "bounded", ["parse_xor_address"],
              "Ok for every value; None exactly for short values / unknown family", bound="value length 0..20 (symbolic), any family", module=SM),
            K("set_extension total on a received 4-byte block", "c07_set_extension_total_4", "thorough", "bounded", ["RtpHeader::set_extension"],
              "stamping an extension on a parsed packet never panics, for every received one-byte-header block (well-formed or not)",
              bound="received extension block of 4 symbolic bytes, 2-byte value", module=RM, timeout=3000),
            K("canary: ServerHello::decode never succeeds on 38 bytes", "canary_server_hello_38_always_err", "quick", "canary", ["ServerHello::decode"],
              "false claim, must FAIL", expect="fail", module=HM2),
        ]
        + [dict(o, tier="thorough", timeout=1500) for o in _c07(["c07_parse_rtpfb_16"], RM, "parse_rtcp_rtpfb", "parse_rtcp_rtpfb")
           + _c07(["c07_parse_nack_16"], RM, "parse_nack_body", "parse_nack_body")
           + _c07(["c07_walker_psfb_12"], RM, "parse_rtcp_packets", "parse_rtcp_packets walker (1 sub-packet, literal type/length)")]
    ),
    "verus": [
        V("RTCP walker and every sub-parser: total for input of ANY length (Verus)", "rtcp_total", "quick", "proof",
          ["parse_rtcp_packets", "parse_sender_report", "parse_receiver_report", "parse_sdes", "parse_goodbye", "parse_report_block",
           "parse_rtcp_rtpfb", "parse_rtcp_psfb", "parse_psfb_common", "parse_fir_body", "parse_nack_body", "parse_remb_body", "parse_twcc_body"],
          "verbatim text of the 13 functions (types and constants copied from the source too): for every byte string (no length bound) every index and slice range is in bounds, no usize/u8 arithmetic or shift overflows, every loop carries a decreases measure (terminates), every call meets its callee's precondition — so the walker returns Ok or Err, never panics, never spins. Precondition: a slice spans at most isize::MAX bytes (Rust's own guarantee)",
          min_verified=38),
        V("STUN decoder: total for input of ANY length (Verus)", "stun_total", "quick", "proof", ["decode_stun_message"],
          "verbatim decode_stun_message (StunDecoded/StunMethod/StunClass copied from the source): for every byte string every index and slice range is in bounds, copy_from_slice lengths agree, no arithmetic overflows, the attribute loop terminates. parse_xor_address is called through 'returns for every argument' (its own totality is a Kani obligation); bail!(m) is read as return Err(<opaque>(m))",
          min_verified=2),
        V("DTLS record + handshake decoders: total for input of ANY length (Verus)", "dtls_decode_total", "quick", "proof",
          ["DtlsRecord::decode", "HandshakeMessage::decode", "ClientHello::decode", "ServerHello::decode", "HelloVerifyRequest::decode",
           "ServerKeyExchange::decode", "CertificateMessage::decode", "ClientKeyExchange::decode", "Finished::decode",
           "ContentType::try_from", "HandshakeType::try_from"],
          "verbatim text of the nine decoders and two TryFrom impls (message structs copied from the source) against an assumed contract of bytes::Bytes that carries the crate's documented panic conditions as preconditions: for every buffer content and length every get_uN / copy_to_slice / split_to / advance / index is within the remaining data, no arithmetic overflows, the cipher-suite and certificate loops terminate",
          min_verified=15),
        V("RTP header extension get/set on a block of ANY content and length (Verus)", "rtp_ext_total", "quick", "proof",
          ["RtpHeader::get_extension", "RtpHeader::set_extension", "RtpHeaderExtension::new"],
          "verbatim get_extension (one-byte 0xBEDE and two-byte 0x1000 walkers) and set_extension (rebuild of a one-byte block) on an arbitrary received block: every index, Bytes::slice range and extend_from_slice source range is in bounds, no arithmetic overflows, all three loops terminate. set_extension is taken on blocks RtpHeader::parse can produce (at most 65535 words)",
          min_verified=8),
        V("RTP / SRTP packet framing: total for input of ANY length (Verus)", "rtp_parse_total", "quick", "proof",
          ["RtpHeader::parse", "RtpPacket::parse", "RtpPacket::parse_bytes", "SrtpPacket::parse"],
          "verbatim RtpHeader::parse<B: Buf> (CSRC list, extension block), RtpPacket::parse_bytes (padding octet), RtpPacket::parse, SrtpPacket::parse against the assumed bytes::Buf contract: for every datagram every read is within the remaining data, csrc_count*4 and extension_len*4 do not overflow, the padding count never exceeds the payload. The CSRC iterator expression is moved unchanged into a wrapper with the contract 'csrc_count reads of 4 octets'",
          min_verified=5),
        V("DCEP messages: total for input of ANY length (Verus)", "dcep_total", "quick", "proof",
          ["DataChannelOpen::unmarshal", "DataChannelAck::unmarshal"],
          "verbatim DCEP OPEN / ACK decoders against the assumed bytes::Bytes contract: label_len + protocol_len is checked before both split_to calls, no read past the end, for every message length (the Kani stand-in did not finish at 14 symbolic bytes)",
          min_verified=4),
        V("TURN relayed data / ChannelData: classified without out-of-bounds read (Verus)", "turn_relay_total", "quick", "proof",
          ["IceTransport::handle_turn_packet", "handle_packet (first statements, up to the classifying octet)"],
          "verbatim handle_turn_packet and the head of handle_packet, read as the sequential code of one task (async/.await dropped, one let-chain read as a tuple pattern): for every datagram from the TURN server — ChannelData with any declared length, a Data indication whose DATA attribute is any byte string including the empty one — the ChannelData slice is in bounds and the inner datagram's first octet is read only if it exists",
          min_verified=2),
        V("TURN over TCP framing: any frame length, any caller buffer (Verus)", "turn_tcp_frame_total", "quick", "proof",
          ["TurnClient::recv"],
          "verbatim TurnClient::recv read as the sequential code of one task (async/.await dropped; tokio's read / read_exact / timeout / Mutex::lock called through assumed contracts: read returns n <= buf.len()): for every 2-octet frame length and every caller buffer the slice buf[offset..len] is in range, the returned length never exceeds the buffer, and the read loop terminates (each round reads at least one octet or fails)",
          min_verified=1),
        V("SCTP packet / chunk / parameter walkers: total for chunks of ANY length (Verus)", "sctp_walkers_total", "quick", "proof",
          ["SctpInner::handle_packet (chunk walker, up to the dispatch)", "SctpInner::handle_init (fixed part)", "SctpInner::handle_init_ack (fixed part + parameter walker)",
           "SctpInner::handle_forward_tsn (pairs)", "SctpInner::handle_reconfig", "SctpInner::handle_reconfig_outgoing_ssn_reset (fixed part + stream list)", "SctpInner::handle_reconfig_response",
           "SctpInner::handle_sack (fixed part + gap blocks)", "SctpInner::handle_data (up to the in-order hand-over)", "SctpInner::process_data_payload (DATA header reads)"],
          "verbatim parsing parts of the SCTP handlers read as the sequential code of one task (async/.await dropped; each handler cut where parsing ends): every Bytes read / split_to / advance is within the remaining data for chunk values of any length, chunk_length - 4 and param_len - 4 do not underflow, every walker terminates; process_data_payload needs the 12-octet DATA header (requires) and handle_data establishes it at the hand-over",
          min_verified=23),
        V("H.264 depacketiser: total for a payload of ANY length (Verus)", "h264_depack_total", "quick", "proof",
          ["H264Depacketizer::push"],
          "verbatim push (STAP-A walker, FU-A reassembly, single NAL; types copied from the source, tracing macros dropped): payload[0], payload[1], payload[2..], the STAP-A length reads and Bytes::slice ranges are in bounds for every payload and every reassembly state, the STAP-A loop terminates",
          min_verified=1),
        V("UDPTL datagram parse: total for a datagram of ANY length (Verus)", "udptl_parse_total", "quick", "proof",
          ["UdtlTransport::recv (parsing statements)"],
          "the statements of recv between the socket read and try_deliver, copied verbatim as one function of (buf, n): for every n <= buf.len() the sequence number, primary-IFP and redundant-IFP reads and slices are in bounds and the redundancy walker terminates",
          min_verified=2),
        V("DTLS hello extension walks: total for an extension block of ANY length (Verus)", "dtls_ext_walk_total", "quick", "proof",
          ["DtlsInner::handle_client_hello (extension walk)", "DtlsInner::handle_server_hello (extension walk)"],
          "the extension-walking statements of both hello handlers, copied verbatim as functions of (hello.extensions, ctx): get_u16 / split_to within the remaining data, the use_srtp profile-list loop indexes within the extension, both loops terminate",
          min_verified=5),
        V("DTLS handshake fragment walker / reassembly: total for a record payload of ANY length (Verus)", "dtls_reassembly_total", "quick", "proof",
          ["DtlsInner::process_handshake_payload", "HandshakeMessage::decode"],
          "verbatim process_handshake_payload read as the sequential code of one task, with the real HandshakeMessage::decode under the postcondition 'a decoded message consumes at least its 12-octet header': the walker terminates, msg_buf.len() - body.len() does not underflow, the raw-message slice is in range, and no arithmetic on the u16 in-order counter recv_message_seq (which the post-HelloVerifyRequest path sets to whatever the peer sent) can overflow",
          min_verified=5),
        V("remote SDP a=mid arithmetic: every mid string (Verus)", "remote_mid_total", "quick", "proof",
          ["PeerConnection::set_remote_description (next_mid update)"],
          "the statements of set_remote_description that move next_mid past the numeric mids of the remote description, copied verbatim as a function of (self.inner.next_mid, desc.media_sections) with str::parse::<u16> returning any u16: the u16 arithmetic on the parsed mid does not overflow",
          min_verified=2),
    ],
}

# =============================================================================== C01
SCM = "transports::sctp"
PROPS["C01"] = {
    "level": "proof",
    "explanation": "KERNEL ONLY: the per-stream resequencer InboundStream::{enqueue,drain_ready} against a map view (Verus over the extracted text, vstd BTreeMap specification) and the serial-number comparisons tsn_gt/ssn_gt over their full domain (Kani). TSN de-duplication, reassembly, SACK/retransmission, INIT handling and every liveness clause of C01 are statements of async methods and are NOT decided.",
    "trusted_base": ["vstd's specification of std::collections::BTreeMap (std_specs::btree): insert/remove/len against Map<K,V>",
                     "Verus extraction: bytes::Bytes re-declared as an opaque struct (InboundStream only moves messages); one debug! statement dropped",
                     "assumed precondition of enqueue: wf (next_ssn not buffered) — re-established by every enqueue/drain_ready; callers drain after advance_ssn_to",
                     "assumed: an SSN below next_ssn is never enqueued (TSN de-duplication upstream, async code, not verified)"],
    "kani": [
        K("tsn_gt == RFC 1982 serial comparison", "c01_tsn_gt_serial_spec", "quick", "proof", ["tsn_gt"],
          "in-place kani::ensures: a > b <=> 0 < (a-b) mod 2^32 < 2^31 for every pair", module=SCM),
        K("ssn_gt == RFC 1982 serial comparison", "c01_ssn_gt_serial_spec", "quick", "proof", ["ssn_gt"],
          "in-place kani::ensures: a > b <=> 0 < (a-b) mod 2^16 < 2^15 for every pair", module=SCM),
        K("serial order laws", "c01_serial_order_laws", "quick", "proof", ["tsn_gt", "ssn_gt"],
          "irreflexive, asymmetric, successor is greater — for every pair, both widths", module=SCM),
        K("canary: ssn_gt is plain >", "canary_ssn_gt_is_plain_greater", "quick", "canary", ["ssn_gt"], "false claim, must FAIL", expect="fail", module=SCM),
    ],
    "verus": [
        V("InboundStream ordered release (Verus)", "sctp_inbound", "quick", "proof", ["InboundStream::enqueue", "InboundStream::drain_ready"],
          "drain_ready releases exactly the maximal run next_ssn, next_ssn+1, .. (mod 2^16) in that order, removes exactly those keys, advances next_ssn by the count and re-establishes wf; enqueue == insert then drain (the accepted message is never lost; the early return under the 128-entry cap is unreachable under wf); termination for all 65536 keys",
          min_verified=5),
        V("delivered sequence is a prefix for every arrival history (Verus lemma)", "sctp_inbound", "quick", "proof", ["InboundStream::enqueue"],
          "lemma delivered_is_prefix over the enqueue contract: for ANY subset of the sender's messages (N <= 65535, SSNs key(s0,i) incl. wrap) arriving in ANY order, after every arrival the application has received exactly msgs[0..d) — in order, nothing duplicated, altered or fabricated — where d is the length of the contiguous arrived prefix (induction over the arrival sequence; step lemma step_preserves; satisfiability witness exec_ok_is_satisfiable)",
          min_verified=15),
        V("TSN-level buffer and in-order drain, incl. the 2^32 wrap (Verus)", "sctp_tsn_drain", "quick", "proof",
          ["SctpInner::handle_data (slow path: buffer the chunk, drain the in-order run)"],
          "the slow-path statements of handle_data, copied verbatim as a function of the lock guard over BTreeMap<u32,(u8,Bytes)> (vstd specification through Deref/DerefMut contracts), the cumulative TSN and the arriving chunk: the chunk is buffered under its TSN with exactly its flags and bytes unless that TSN is already buffered; the chunks handed on are exactly the buffered chunks cum+1, cum+2, .. (mod 2^32) in that order up to the first gap; exactly those keys leave the buffer, every other entry is unchanged; the drain loop terminates",
          min_verified=5),
    ],
}

# =============================================================================== C14
PROPS["C14"] = {
    "level": "proof",
    "explanation": "sink contracts on the verbatim send / receive paths of RtpTransport (Verus, one task's sequential reading): what reaches IceConn::{send, send_rtcp, try_send} is an output of SrtpSession::protect_* whenever srtp_required; what reaches the RTCP listener, the observers and the rewrite bridge is an output of a successful unprotect_* whenever srtp_required; nothing passes while no session exists",
    "trusted_base": ["one task's sequential reading of async fns (interleaving at await points not modelled)",
                     "ghost predicates is_srtp_output / authentic_rtp / authentic_bytes are established only by the assumed contracts of SrtpSession::protect_* / unprotect_* (Ok => ..)",
                     "mandatory(conn) == srtp_required for a transport's own IceConn and for a bridge target's (RtpTransport::new stores both)",
                     "parking_lot / tokio primitives (lock, Notify, mpsc) as opaque calls; diagnostic AtomicU64 counters assumed not to reach u64::MAX",
                     "`&mut v[..]` read as `v.as_mut_slice()` (vstd's IndexMut<RangeFull> gives no relation to the vector)"],
    "kani": [],
    "verus": [
        V("egress: only SRTP-protected octets reach the ICE connection when srtp_required (Verus)", "srtp_egress_gate", "quick", "proof",
          ["RtpTransport::send", "RtpTransport::send_rtp", "RtpTransport::send_rtcp", "RtpTransport::send_rtcp_sync", "RtpTransport::try_bridge_rewrite_rtp", "RtpTransport::ice_conn"],
          "verbatim text of the five send paths; the sinks IceConn::{send, send_rtcp, try_send} require `mandatory(conn) ==> is_srtp_output(buf)`; discharged at all six call sites (census: 3 + 1 + 2 in the non-test part of the file): with a session the buffer handed over is the one protect_rtp / protect_rtcp filled, without a session and srtp_required every path returns before its sink; the bridge uses the *target's* session and flag",
          min_verified=6),
        V("ingress: only authenticated packets leave the SRTP gate when srtp_required (Verus)", "srtp_ingress_gate", "quick", "proof",
          ["RtpTransport::receive (up to the hand-over to observers, bridge and RTCP listener)"],
          "verbatim receive() cut where demultiplexing starts; sinks try_send_with_fallback (RTCP listener), fire_ingress (observers) and try_bridge_rewrite_rtp require the packet to be the result of a successful unprotect_rtcp / unprotect_rtp when srtp_required; discharged at each call site; without a session and srtp_required the function returns first",
          min_verified=1),
    ],
}

# =============================================================================== C02
PROPS["C02"] = {
    "level": "proof",
    "explanation": "invariant of HandshakeContext on the verbatim DTLS handshake handlers (Verus): with an expected fingerprint, session keys exist — and Connected is reachable — only after a certificate with that fingerprint was presented and (client) the ServerKeyExchange signature was verified with it. Client role proved; the server role clauses fail (open known finding: the server never authenticates the client)",
    "trusted_base": ["ECDHE, PRF, key expansion, signature verification, certificate parsing and the message codecs are opaque callees",
                     "fingerprint_from_der returns fp_spec(der); possession_proved(fp) is established only by the assumed contract of verify_server_key_exchange_signature (Ok => ..)",
                     "one task's sequential reading of async fns; one let-chain read as a conjunction; Option::as_deref and String / Vec comparison through wrappers whose bodies are those expressions",
                     "our own counters message_seq / epoch stay below 65535 (preconditions)"],
    "kani": [],
    "verus": [
        V("identity gate, client role and role-independent handlers (Verus)", "dtls_identity_gate", "quick", "proof",
          ["DtlsInner::handle_certificate", "DtlsInner::handle_server_key_exchange", "DtlsInner::handle_server_hello_done (up to the key derivation)",
           "DtlsInner::handle_client_key_exchange", "DtlsInner::handle_finished"],
          "inv(ctx, is_client): certificate on record has the expected fingerprint; server_key_exchange_verified => certificate on record and key possession proved for the expected fingerprint; session_keys is Some => identity established; client: session_keys is Some => server_key_exchange_verified. handle_certificate, handle_server_key_exchange and handle_finished preserve inv in both roles; handle_server_hello_done and handle_client_key_exchange preserve it in the client role; identity_ok (client: and possession_proved) is asserted before both DtlsState::Connected constructions",
          min_verified=7),
        V("identity gate, server role: keys only after the client's certificate (Verus)", "dtls_identity_gate_server", "quick", "proof",
          ["DtlsInner::handle_client_key_exchange", "DtlsInner::handle_server_hello_done (up to the key derivation)"],
          "the same invariant for is_client == false in the two handlers where a server obtains session keys: `!is_client ==> inv(final)`",
          min_verified=4),
    ],
}

# =============================================================================== C13
PROPS["C13"] = {
    "level": "proof",
    "explanation": "PACKET ASSEMBLY KERNEL ONLY (Verus, verbatim text, one task's sequential reading): every octet string handed to the outgoing channel by send_packet_with_tag is at most 1200 octets, carries the given verification tag at 4..8 and the little-endian CRC32c of the packet with a zero checksum field at 8..12; transmit_chunks_with_tag batches chunks of at most 1188 octets so that this holds; create_data_chunk lays a DATA chunk out per RFC 4960 3.3.1 and stays within 1188 octets for payloads up to DEFAULT_MAX_PAYLOAD_SIZE; send_chunk likewise for control values up to 1184 octets. Not decided: TSN assignment, window / retransmission / quiescence rules, which tag callers pass, value sizes at the call sites of send_chunk (COOKIE-ECHO and HEARTBEAT-ACK echo peer-chosen lengths)",
    "trusted_base": ["assumed contract of bytes::{Bytes, BytesMut} as an append-only writer with a Seq<u8> view (put_u8/u16/u32/slice append big-endian; DerefMut gives the octets)",
                     "sctp_crc32c returns crc32c_spec(data) (the CRC itself — SSE4.2 intrinsics / crc32c crate — is not verified)",
                     "one task's sequential reading of async fns; two `for` loops read as iterating by reference with named ghost iterators; unused loop binders `_` named",
                     "statistics counters and close-reason mutex as opaque calls"],
    "kani": [],
    "verus": [
        V("every SCTP packet handed to the wire: size, verification tag, CRC32c placement (Verus)", "sctp_packet_assembly", "quick", "proof",
          ["SctpInner::send_packet_with_tag", "SctpInner::transmit_chunks_with_tag", "SctpInner::send_chunk", "SctpInner::create_data_chunk"],
          "sink contract on the outgoing channel: wire_ok(p, tag) = 12 <= |p| <= 1200, p[4..8] == BE(tag), p[8..12] == LE(crc32c(p with p[8..12] = 0)); discharged in send_packet_with_tag under 12 + sum of chunk lengths <= 1200; transmit_chunks_with_tag establishes that for every batch when each chunk is <= 1188 octets (loop invariant current_len == 12 + sum(batch)); create_data_chunk: exact RFC 4960 3.3.1 layout (type, flags, length = 16 + payload, TSN, stream id, SSN, PPID, payload, zero padding to 4) and <= 1188 octets for payload <= 1172; send_chunk: <= 1188 octets for value <= 1184",
          min_verified=17),
    ],
}
