"""Registry of obligations per property. Read by ./check.

kind:  proof   = unbounded obligation (full input domain of the function, or an inductive lemma)
       bounded = bounded stand-in with the stated bound (never counted as proved)
       canary  = must FAIL (pipeline/vacuity self-check)
tier:  quick | thorough (thorough runs quick + thorough)
"""

COMMON_TRUSTED = [
    "Kani 0.68 / CBMC 6.11 / CaDiCaL; Verus 0.2026.09.13 / Z3 (tool soundness)",
    "MIR semantics as modelled by Kani; machine integers are bit-vectors in Kani (exact) and int with range checks in Verus",
    "contracts and harness modules are injected into a byte-identical scratch copy of /repo's working tree on every run (lib/scratch.py); no existing line is changed",
    "[patch.crates-io] anyhow -> zero-sized Error (verification builds only): an anyhow::Error influences control flow only via is_err/?",
    "termination: proved in Verus (decreases); in Kani only within the unwinding bound (unwinding assertions on)",
]

CRYPTO_TRUSTED = [
    "[patch.crates-io] hmac 0.13 -> deterministic keyed fold with the same digest::Mac/KeyInit traits: real HMAC is assumed to be a deterministic function of (key, data); unforgeability is assumed, never proved",
    "[patch.crates-io] aes-gcm 0.10 -> toy AEAD with the same aead traits: determinism and 'every input byte matters' only; cryptographic strength assumed",
    "literal SrtpContext built by the harness with zero-filled AES key schedules (profiles that read them are excluded)",
]


def K(name, harness, tier, kind, functions, statement, timeout=300, bound=None, expect=None, module="srtp", min_covers=None):
    d = {"name": name, "harness": "%s::verif_kani::%s" % (module, harness), "tier": tier, "kind": kind,
         "functions": functions, "statement": statement, "timeout": timeout}
    if bound:
        d["bound"] = bound
    if expect:
        d["expect"] = expect
    if min_covers is not None:
        d["min_covers"] = min_covers
    return d


def V(name, unit, tier, kind, functions, statement, min_verified, timeout=300):
    return {"name": name, "unit": unit, "tier": tier, "kind": kind, "functions": functions, "statement": statement,
            "min_verified": min_verified, "timeout": timeout}


PROPS = {}

# =============================================================================== C04
PROPS["C04"] = {
    "level": "proof",
    "explanation": "SRTP index estimation for all sequence histories (contracts on estimate_roc/update + inductive lemma), IV/nonce construction against RFC spec functions, protect/unprotect layout as bounded stand-ins",
    "trusted_base": CRYPTO_TRUSTED,
    "kani": [
        K("estimate_roc contract", "c04_estimate_roc_contract", "quick", "proof", ["SrtpContext::estimate_roc"],
          "in-place kani::ensures: last=None => v==roc; SEQ-s_l < -2^15 => v==roc+1; > 2^15 => v==roc-1 (mod 2^32); else v==roc — for every (roc, last, seq)"),
        K("update contract", "c04_update_contract", "quick", "proof", ["SrtpContext::update"],
          "in-place kani::ensures + kani::modifies(rollover_counter,last_sequence): state becomes max(old index, roc*2^16+seq); first packet initialises; nothing else is written"),
        K("index step (estimate∘update)", "c04_index_step", "quick", "proof", ["SrtpContext::estimate_roc", "SrtpContext::update"],
          "for every receiver state h and genuine sender index i with |i-h| < 2^15: estimate_roc(i mod 2^16) == i div 2^16 and update leaves max(h,i)"),
        K("build_iv == RFC 3711 4.1.1", "c04_build_iv_spec", "quick", "proof", ["SrtpContext::build_iv"],
          "IV == (k_s*2^16) xor (SSRC*2^64) xor (i*2^16) for every salt, ssrc, roc, seq"),
        K("build_gcm_nonce == RFC 7714 8.1", "c04_build_gcm_nonce_spec", "quick", "proof", ["SrtpContext::build_gcm_nonce"],
          "nonce == (00 00 || SSRC || ROC || SEQ) xor salt for every salt, ssrc, roc, seq"),
        K("build_gcm_rtcp_nonce == RFC 7714 9.1", "c04_build_gcm_rtcp_nonce_spec", "quick", "proof", ["SrtpContext::build_gcm_rtcp_nonce"],
          "nonce == (00 00 || SSRC || 00 00 || index) xor salt for every salt, ssrc, index"),
        K("IV/nonce injective in (ssrc, roc, seq)", "c04_iv_injective", "quick", "proof", ["SrtpContext::build_iv", "SrtpContext::build_gcm_nonce"],
          "for a fixed salt two packets get the same IV/nonce only if ssrc, roc and seq all agree"),
        K("profile parameter table", "c04_profile_table", "quick", "proof",
          ["SrtpProfile::tag_len", "SrtpProfile::salt_len", "SrtpProfile::key_len", "SrtpProfile::auth_key_len"],
          "tag/salt/key/auth-key lengths per profile equal RFC 3711 8.2 / RFC 7714 14.2"),
        K("canary: estimate_roc always returns roc", "canary_estimate_roc_always_roc", "quick", "canary", ["SrtpContext::estimate_roc"],
          "false claim, must FAIL", expect="fail"),
    ],
    "verus": [
        V("index tracking over all histories (Verus)", "srtp_index", "quick", "proof",
          ["SrtpContext::estimate_roc", "SrtpContext::update"],
          "verbatim estimate_roc/update satisfy est()/upd(); lemma index_tracking: for any arrival sequence with each genuine index within 2^15-1 of the running maximum, every packet is estimated with the sender's ROC (induction over Seq<int>, unbounded)",
          min_verified=9),
    ],
}

# =============================================================================== C05
HM = "hmac substitute (deterministic keyed fold)"
PROPS["C05"] = {
    "level": "proof",
    "explanation": "context-level contracts: Err => receiver crypto state (rollover counter, last sequence, SRTCP index) unchanged; Ok => the stripped tag equals the MAC recomputed by the harness over EVERY preceding byte (and the ROC for RTP); short inputs rejected. Packet shapes are bounded and reported as bounded stand-ins; only constant_time_eq is unbounded over its reachable domain.",
    "trusted_base": CRYPTO_TRUSTED + ["SrtpPacket built literally by the harness (SrtpPacket::parse does not execute in CBMC, DESIGN 2.5)"],
    "kani": [
        K("constant_time_eq == slice equality", "c05_constant_time_eq_spec", "quick", "proof", ["constant_time_eq"],
          "constant_time_eq(a,b) == (a==b) for every pair of slices of length <= 20 (= SHA1_LEN, every reachable size)"),
        K("unprotect_rtcp HMAC-80: frame + tag over all bytes (22 B, fixed key)", "c05_unprotect_rtcp_hmac80_22_fixedkey", "quick", "bounded",
          ["SrtpContext::unprotect_rtcp", "SrtpContext::auth_tag_rtcp_into", "constant_time_eq"],
          "Err => (roc,last_seq,rtcp_index) unchanged; Ok => tag == MAC(k, packet[..len-10])[..10], output = packet minus index and tag, index advances only to the authenticated value",
          bound="packet = 22 bytes (8 header + 0 body + 4 index + 10 tag), symbolic content and context state, one concrete auth key; " + HM, timeout=600),
        K("unprotect_rtcp HMAC-80: frame + tag over all bytes (26 B, any key)", "c05_unprotect_rtcp_hmac80_26_anykey", "thorough", "bounded",
          ["SrtpContext::unprotect_rtcp", "SrtpContext::auth_tag_rtcp_into", "constant_time_eq"],
          "same contract, symbolic 20-byte auth key",
          bound="packet = 26 bytes, symbolic content, state and key; " + HM, timeout=1800),
        K("unprotect_rtcp GCM: frame + AEAD open (32 B)", "c05_unprotect_rtcp_gcm_32", "quick", "bounded",
          ["SrtpContext::unprotect_rtcp", "SrtpContext::build_gcm_rtcp_nonce"],
          "Err => crypto state unchanged (the SRTCP index advances only on an authenticated packet); Ok => AEAD opens with AAD = header(8)||index word, nonce = RFC 7714 9.1, tag = 16 bytes before the index",
          bound="packet = 32 bytes (8 hdr + 4 ct + 16 tag + 4 index), symbolic content and state, one concrete key; aes-gcm substitute", timeout=600),
        K("unprotect_rtcp short input (NULL, 0 B)", "c05_unprotect_rtcp_short_null_0", "quick", "bounded", ["SrtpContext::unprotect_rtcp"],
          "Err(PacketTooShort), state unchanged", bound="length 0, profile NullCipherHmac"),
        K("unprotect_rtcp short input (SHA1_32, 7 B)", "c05_unprotect_rtcp_short_sha32_7", "quick", "bounded", ["SrtpContext::unprotect_rtcp"],
          "Err(PacketTooShort), state unchanged", bound="length 7 (< 4+4), profile Aes128Sha1_32"),
        K("unprotect_rtcp short input (SHA1_80, 13 B)", "c05_unprotect_rtcp_short_sha80_13", "quick", "bounded", ["SrtpContext::unprotect_rtcp"],
          "Err(PacketTooShort), state unchanged", bound="length 13 (< 10+4), profile Aes128Sha1_80"),
        K("unprotect_rtcp short input (GCM, 19 B)", "c05_unprotect_rtcp_short_gcm_19", "quick", "bounded", ["SrtpContext::unprotect_rtcp"],
          "Err(PacketTooShort), state unchanged", bound="length 19 (< 16+4), profile AeadAes128Gcm"),
        K("unprotect HMAC-80: frame + tag over header||body||ROC (body 10 B, fixed key)", "c05_unprotect_hmac80_body10_fixedkey", "quick", "bounded",
          ["SrtpContext::unprotect", "SrtpContext::estimate_roc", "SrtpContext::update", "RtpHeader::write_to", "constant_time_eq"],
          "Err => crypto state unchanged; Ok => body tail == MAC(k, header image || body || roc_be)[..10] with roc = RFC 3711 estimate, state advanced per post_update",
          bound="12-byte header (all fields symbolic), body = 0 payload + 10 tag, one concrete key; " + HM, timeout=900),
        K("unprotect HMAC-80: frame + tag (body 14 B, any key)", "c05_unprotect_hmac80_body14_anykey", "thorough", "bounded",
          ["SrtpContext::unprotect", "SrtpContext::estimate_roc", "SrtpContext::update", "RtpHeader::write_to", "constant_time_eq"],
          "same contract, 4-byte payload, symbolic key",
          bound="12-byte header, body = 4 payload + 10 tag, symbolic key; " + HM, timeout=1800),
        K("unprotect GCM: frame + AEAD open (body 18 B)", "c05_unprotect_gcm_body18", "thorough", "bounded",
          ["SrtpContext::unprotect", "SrtpContext::build_gcm_nonce"],
          "Err => crypto state unchanged; Ok => AEAD opens with AAD = header image, nonce = RFC 7714 8.1 (seq, estimated roc), tag = last 16 bytes",
          bound="12-byte header, body = 2 ct + 16 tag, one concrete key; aes-gcm substitute", timeout=1800),
        K("unprotect short body (NULL, 0 B)", "c05_unprotect_short_null_0", "quick", "bounded", ["SrtpContext::unprotect"],
          "Err(PacketTooShort), state unchanged", bound="body length 0"),
        K("unprotect short body (SHA1_32, 3 B)", "c05_unprotect_short_sha32_3", "quick", "bounded", ["SrtpContext::unprotect"],
          "Err(PacketTooShort), state unchanged", bound="body length 3"),
        K("unprotect short body (SHA1_80, 9 B)", "c05_unprotect_short_sha80_9", "quick", "bounded", ["SrtpContext::unprotect"],
          "Err(PacketTooShort), state unchanged", bound="body length 9"),
        K("unprotect short body (GCM, 15 B)", "c05_unprotect_short_gcm_15", "quick", "bounded", ["SrtpContext::unprotect"],
          "Err(PacketTooShort), state unchanged", bound="body length 15"),
        K("canary: estimate_roc always returns roc", "canary_estimate_roc_always_roc", "quick", "canary", ["SrtpContext::estimate_roc"],
          "false claim, must FAIL", expect="fail"),
    ],
}

# =============================================================================== C03
DM = "transports::dtls"
TRACE_STUBS = ["stubs: tracing::callsite::DefaultCallsite::interest / __is_enabled / Event::dispatch (logging is a no-op; a reachable thread_local! crashes the Kani compiler)"]
PROPS["C03"] = {
    "level": "proof",
    "explanation": "record-acceptance gate try_decrypt_record for all epochs / 48-bit sequence numbers / content types / key states / roles; AAD layout; decrypt_record_with_cipher nonce/AAD/tag layout; encrypt/decrypt round trip with explicit nonce == record sequence",
    "trusted_base": CRYPTO_TRUSTED[1:2] + TRACE_STUBS + [
        "recording stubs for decrypt_record / decrypt_record_with_cipher inside the gate obligations (the callees have their own obligations c03_decrypt_*)",
        "DtlsInner handed to try_decrypt_record as uninitialised memory (the function never reads self; a read would be flagged)",
        "HandshakeContext built literally by the harness"],
    "kani": [
        K("gate: no keys", "c03_gate_no_keys", "quick", "proof", ["DtlsInner::try_decrypt_record"],
          "for every epoch, seq, type, version, role: epoch!=0 => Err; Ok(ApplicationData) => epoch!=0; epoch-0 Handshake/CCS pass through unchanged",
          module=DM, min_covers=1),
        K("gate: session_keys", "c03_gate_session_keys", "quick", "proof", ["DtlsInner::try_decrypt_record"],
          "epoch!=0 => exactly decrypt_record(type, version, epoch*2^48|seq, payload) under the PEER's write key/iv; Ok(ApplicationData) or Ok(Alert) => epoch!=0",
          module=DM),
        K("gate: session_crypto", "c03_gate_session_crypto", "quick", "proof", ["DtlsInner::try_decrypt_record"],
          "same with the cached-cipher path decrypt_record_with_cipher", module=DM),
        K("make_aad layout", "c03_make_aad_spec", "quick", "proof", ["make_aad"],
          "aad == seq(8) || type || major || minor || len(2) for every input with len <= 65535", module=DM),
        K("decrypt_record_with_cipher layout (28 B)", "c03_decrypt_with_cipher_28", "quick", "bounded", ["decrypt_record_with_cipher", "make_aad"],
          "Ok(p) iff AEAD opens with nonce = iv||payload[0..8], AAD = make_aad(seq,type,version,|ct|), tag = last 16; p == plaintext",
          bound="payload = 28 bytes (8 nonce + 4 ct + 16 tag), symbolic iv/seq/content; aes-gcm substitute", module=DM, timeout=600),
        K("decrypt_record_with_cipher short (23 B)", "c03_decrypt_with_cipher_short_23", "quick", "bounded", ["decrypt_record_with_cipher"],
          "payload shorter than 8+16 => Err, no panic", bound="payload = 23 bytes", module=DM, min_covers=0),
        K("decrypt_record_with_cipher short (0 B)", "c03_decrypt_with_cipher_short_0", "quick", "bounded", ["decrypt_record_with_cipher"],
          "empty payload => Err, no panic", bound="payload = 0 bytes", module=DM, min_covers=0),
        K("encrypt_record∘decrypt_record (4 B)", "c03_encrypt_decrypt_roundtrip_4", "quick", "bounded", ["encrypt_record", "decrypt_record", "make_aad"],
          "decrypt(encrypt(p)) == p; wire explicit nonce == seq (a fresh sequence number gives a fresh nonce)",
          bound="plaintext = 4 bytes, symbolic iv/seq/type; aes-gcm substitute", module=DM, timeout=600),
        K("canary: gate rejects every epoch-0 record", "canary_gate_rejects_all_epoch0", "quick", "canary", ["DtlsInner::try_decrypt_record"],
          "false claim, must FAIL", expect="fail", module=DM),
    ],
}
