"""Registry of obligations per property. Read by ./check.

kind:  proof   = unbounded obligation (full input domain of the function, or an inductive lemma)
       bounded = bounded stand-in with the stated bound (never counted as proved)
       canary  = must FAIL (pipeline/vacuity self-check)
tier:  quick | thorough (thorough runs quick + thorough)
"""

COMMON_TRUSTED = [
    "Kani 0.68 / CBMC 6.11 / CaDiCaL; Verus 0.2026.09.13 / Z3 (tool soundness)",
    "MIR semantics as modelled by Kani; machine integers are bit-vectors in Kani (exact) and int with range checks in Verus",
    "contracts and harness modules are injected into a byte-identical scratch copy of /repo's working tree on every run (lib/scratch.py); no existing line is changed",
    "[patch.crates-io] anyhow -> zero-sized Error (verification builds only): an anyhow::Error influences control flow only via is_err/?",
    "termination: proved in Verus (decreases); in Kani only within the unwinding bound (unwinding assertions on)",
]

CRYPTO_TRUSTED = [
    "[patch.crates-io] hmac 0.13 -> deterministic keyed fold with the same digest::Mac/KeyInit traits: real HMAC is assumed to be a deterministic function of (key, data); unforgeability is assumed, never proved",
    "[patch.crates-io] aes-gcm 0.10 -> toy AEAD with the same aead traits: determinism and 'every input byte matters' only; cryptographic strength assumed",
    "literal SrtpContext built by the harness with zero-filled AES key schedules (profiles that read them are excluded)",
]


def K(name, harness, tier, kind, functions, statement, timeout=300, bound=None, expect=None, module="srtp"):
    d = {"name": name, "harness": "%s::verif_kani::%s" % (module, harness), "tier": tier, "kind": kind,
         "functions": functions, "statement": statement, "timeout": timeout}
    if bound:
        d["bound"] = bound
    if expect:
        d["expect"] = expect
    return d


def V(name, unit, tier, kind, functions, statement, min_verified, timeout=300):
    return {"name": name, "unit": unit, "tier": tier, "kind": kind, "functions": functions, "statement": statement,
            "min_verified": min_verified, "timeout": timeout}


PROPS = {}

# =============================================================================== C04
PROPS["C04"] = {
    "level": "proof",
    "explanation": "SRTP index estimation for all sequence histories (contracts on estimate_roc/update + inductive lemma), IV/nonce construction against RFC spec functions, protect/unprotect layout as bounded stand-ins",
    "trusted_base": CRYPTO_TRUSTED,
    "kani": [
        K("estimate_roc contract", "c04_estimate_roc_contract", "quick", "proof", ["SrtpContext::estimate_roc"],
          "in-place kani::ensures: last=None => v==roc; SEQ-s_l < -2^15 => v==roc+1; > 2^15 => v==roc-1 (mod 2^32); else v==roc — for every (roc, last, seq)"),
        K("update contract", "c04_update_contract", "quick", "proof", ["SrtpContext::update"],
          "in-place kani::ensures + kani::modifies(rollover_counter,last_sequence): state becomes max(old index, roc*2^16+seq); first packet initialises; nothing else is written"),
        K("index step (estimate∘update)", "c04_index_step", "quick", "proof", ["SrtpContext::estimate_roc", "SrtpContext::update"],
          "for every receiver state h and genuine sender index i with |i-h| < 2^15: estimate_roc(i mod 2^16) == i div 2^16 and update leaves max(h,i)"),
        K("build_iv == RFC 3711 4.1.1", "c04_build_iv_spec", "quick", "proof", ["SrtpContext::build_iv"],
          "IV == (k_s*2^16) xor (SSRC*2^64) xor (i*2^16) for every salt, ssrc, roc, seq"),
        K("build_gcm_nonce == RFC 7714 8.1", "c04_build_gcm_nonce_spec", "quick", "proof", ["SrtpContext::build_gcm_nonce"],
          "nonce == (00 00 || SSRC || ROC || SEQ) xor salt for every salt, ssrc, roc, seq"),
        K("build_gcm_rtcp_nonce == RFC 7714 9.1", "c04_build_gcm_rtcp_nonce_spec", "quick", "proof", ["SrtpContext::build_gcm_rtcp_nonce"],
          "nonce == (00 00 || SSRC || 00 00 || index) xor salt for every salt, ssrc, index"),
        K("IV/nonce injective in (ssrc, roc, seq)", "c04_iv_injective", "quick", "proof", ["SrtpContext::build_iv", "SrtpContext::build_gcm_nonce"],
          "for a fixed salt two packets get the same IV/nonce only if ssrc, roc and seq all agree"),
        K("profile parameter table", "c04_profile_table", "quick", "proof",
          ["SrtpProfile::tag_len", "SrtpProfile::salt_len", "SrtpProfile::key_len", "SrtpProfile::auth_key_len"],
          "tag/salt/key/auth-key lengths per profile equal RFC 3711 8.2 / RFC 7714 14.2"),
        K("canary: estimate_roc always returns roc", "canary_estimate_roc_always_roc", "quick", "canary", ["SrtpContext::estimate_roc"],
          "false claim, must FAIL", expect="fail"),
    ],
    "verus": [
        V("index tracking over all histories (Verus)", "srtp_index", "quick", "proof",
          ["SrtpContext::estimate_roc", "SrtpContext::update"],
          "verbatim estimate_roc/update satisfy est()/upd(); lemma index_tracking: for any arrival sequence with each genuine index within 2^15-1 of the running maximum, every packet is estimated with the sender's ROC (induction over Seq<int>, unbounded)",
          min_verified=9),
    ],
}
