#!/usr/bin/env python3
"""print markdown tables of the registered obligations per property (for DESIGN.md section 4)"""
import os, sys
sys.path.insert(0, os.path.dirname(os.path.dirname(os.path.abspath(__file__))))
import obligations
def esc(s): return s.replace("|", "\\|")
for pid in sorted(obligations.PROPS):
    spec = obligations.PROPS[pid]
    print("#### %s — registered obligations\n" % pid)
    print("| obligation | kind | tier | engine | functions | bound (bounded only) |\n|---|---|---|---|---|---|")
    for o in spec.get("kani", []):
        print("| %s | %s | %s | Kani | %s | %s |" % (esc(o["name"]), o["kind"], o["tier"], ", ".join("`%s`" % f for f in o["functions"][:4]), esc(o.get("bound", ""))))
    for o in spec.get("verus", []):
        print("| %s | %s | %s | Verus | %s | |" % (esc(o["name"]), o["kind"], o["tier"], ", ".join("`%s`" % f for f in o["functions"][:4])))
    print()
