"""Verus extraction: copy real function text out of /repo on every run and assemble a verus! file.

A unit file (verus/units/*.vunit) is a list of sections:
  #unit <name>
  #source <path relative to repo>
  #include <file>            -- the lines of verus/units/<file> are read in place (text shared between units)
  #item [<path>::]<stripped first line>  -- a const / struct / enum copied verbatim from the source (from <path> if
                             -- given, else #source); attribute lines (`#[..]`) inside it are dropped and counted
  #count <path>::<regex> == N  -- census: the regex must occur exactly N times in the non-test part of <path>
                             -- (every sink call site is under contract); otherwise the unit is undecided
  #text                      -- verbatim Verus text (struct re-declaration, spec fns, lemmas) until next '#'-directive
  #impl <Type> / #endimpl    -- wraps extracted fns in `impl <Type> { .. }`
  #fn <signature first line, stripped>      -- anchor of the real function in #source
  #scope <stripped source line>  -- search the #fn anchor only inside the brace block opened on that line (`impl T {`)
  #ret <name>                -- name given to the return value (`-> T` becomes `-> (name: T)`)
  #clauses                   -- requires/ensures/decreases text until next directive
  #hint-before[@N] / #hint-after[@N] <stripped source line inside the function body>
                             -- ghost text (assert .. by(..)) inserted before that line; text until next directive
  #subst-re <regex> => <repl>  -- same with a regular expression (used for `String::from_utf8_lossy(X).to_string()`
                             -- -> `lossy_string(X)`, a trusted wrapper whose body is that very expression)
  #gsubst <old> => <new> / #gsubst-re <regex> => <repl>   -- the same, applied to every #fn and #item that follows
  #attr <attribute>          -- a Verus attribute line placed above the function (e.g. #[verifier::loop_isolation(false)])
  #block <signature> / #in <fn anchor> / #from[@N] <line> (or #from-prefix <text>) / #to <line>  -- a run of statements inside a long function is
                             -- copied verbatim as the body of a function whose signature (the block's free variables
                             -- with their types) is written in the unit; everything else as for #fn
  #deasync                   -- the function is an `async fn`: the `async` keyword and every `.await` are dropped, so the body
                             -- is read as the sequential code one task executes (awaited callees are opaque calls); what
                             -- this loses: interleaving with other tasks at the await points
  #tail-block                -- like #tail, the text (ghost proof block + result expression) runs until the next directive
  #tail <expr>               -- result expression of a cut function (e.g. `Ok(())`), placed where the dropped remainder began
  #cut-after / #cut-before <stripped body line>  -- only the body up to and including / excluding that line is kept
                             -- (open blocks are closed; a cut function returns its `Ok(())`-less prefix, see #tail);
                             -- used to put the first statements of a long async handler under contract
  #loop-invariant <stripped `while`/`for` line>   -- invariant/decreases clauses inserted between loop head and `{`
  #drop-macro <name> [<name>..]  -- statements `<name>!( .. );` (tracing macros) are removed from the body
  #subst <old> => <new>      -- every occurrence of the token sequence <old> in the body is redirected to <new>
                             -- (only for std functions Verus cannot name, e.g. `u32::from_be_bytes(` -> a trusted
                             -- wrapper declared in the unit with the big-endian spec); each use is reported
  #endfn

What the extraction changes (everything else is byte-for-byte the text of /repo):
  (1) `-> T {` becomes `-> (r: T)` + clauses + `{`; for unit functions clauses are put before `{`;
  (2) ghost statements are inserted before quoted anchor lines; loop invariants after loop heads;
  (3) leading `pub`/`pub(crate)` visibility is kept; attributes above the fn are not copied;
  (4) where a unit says so (#drop-macro), tracing-macro statements (debug!/trace!/warn!) are dropped —
      they have no effect on the function's result or state; each one is listed in the evidence.
  (5) where a unit says so (#subst), calls of a std function whose signature Verus cannot name are redirected
      to a wrapper of the same type declared in the unit (trusted; listed in the evidence with the count).
  (6) Rust-2024 let-chains (Verus has none): `if A && let P = E && B { S }` without an else branch is nested as
      `if A { if let P = E { if B { S } } }` (_desugar_let_chains; counted as let_chains_nested); chains with an
      else branch or in a `while` are left alone (Verus rejects them: undecided).
A missing or ambiguous anchor raises LostAnchor (=> exit 2, never an alarm).
"""
import hashlib, os, re


class LostAnchor(Exception):
    pass


def _scan_to_matching_brace(text, start):
    """text[start] is '{' ; return index after matching '}' skipping strings/comments/chars."""
    i, n, depth = start, len(text), 0
    while i < n:
        c = text[i]
        if text.startswith("//", i):
            j = text.find("\n", i)
            i = n if j < 0 else j
            continue
        if text.startswith("/*", i):
            j = text.find("*/", i + 2)
            i = n if j < 0 else j + 2
            continue
        if c == '"':
            i += 1
            while i < n and text[i] != '"':
                i += 2 if text[i] == "\\" else 1
            i += 1
            continue
        if c == "'":
            # char literal or lifetime
            m = re.match(r"'(\\.|[^\\'])'", text[i:])
            if m:
                i += m.end()
                continue
            i += 1
            continue
        if c == "{":
            depth += 1
        elif c == "}":
            depth -= 1
            if depth == 0:
                return i + 1
        i += 1
    raise LostAnchor("unbalanced braces")


def _mask(text):
    """same-length copy of `text` with string / char literals and comments blanked (for brace and token scans)"""
    out = list(text)
    for m in re.finditer(r'"(\\.|[^"\\])*"|//[^\n]*|/\*.*?\*/|\'(\\x[0-9a-fA-F]{2}|\\u\{[0-9a-fA-F]+\}|\\.|[^\'\\])\'', text, re.S):
        for k in range(m.start(), m.end()):
            if out[k] != "\n":
                out[k] = " "
    return "".join(out)


def _split_top(cond_mask, cond, tok):
    """split `cond` at the occurrences of `tok` that are outside every ( [ { of the masked copy"""
    parts, depth, last, i = [], 0, 0, 0
    while i < len(cond_mask):
        c = cond_mask[i]
        if c in "([{":
            depth += 1
        elif c in ")]}":
            depth -= 1
        elif depth == 0 and cond_mask.startswith(tok, i):
            parts.append(cond[last:i])
            i += len(tok)
            last = i
            continue
        i += 1
    parts.append(cond[last:])
    return parts


def _desugar_let_chains(body):
    """Verus has no let-chains. `if A && let P = E && B { S }` WITHOUT an else branch is read as the nested
    `if A { if let P = E { if B { S } } }` (same evaluation order, same bindings in S, nothing runs when any
    conjunct fails). A chain with an else branch, or in a `while`, is left alone (Verus then rejects the unit:
    undecided). Returns (text, number of chains rewritten)."""
    n_done = 0
    mask = _mask(body)
    starts = [m.start() for m in re.finditer(r"\bif\b", mask)]
    for st in reversed(starts):
        mask = _mask(body)
        # the condition runs to the first `{` outside ( [ and outside a nested { (closures in arguments)
        i, depth = st + 2, 0
        while i < len(mask):
            c = mask[i]
            if c in "([":
                depth += 1
            elif c in ")]":
                depth -= 1
            elif c == "{" and depth == 0:
                break
            elif c == ";" and depth == 0:
                i = -1
                break
            i += 1
        if i < 0 or i >= len(mask):
            continue
        cond, cond_mask = body[st + 2:i], mask[st + 2:i]
        if not re.search(r"&&\s*let\b", cond_mask) and not (re.match(r"\s*let\b", cond_mask) and "&&" in cond_mask):
            continue
        parts = [p.strip() for p in _split_top(cond_mask, cond, "&&")]
        if len(parts) < 2 or not any(re.match(r"let\b", p) for p in parts):
            continue
        if any("||" in _mask(p) and not re.match(r"let\b", p) and _split_top(_mask(p), p, "||")[1:] for p in parts):
            continue        # `a || b && let ..` does not parse as a chain anyway; leave it to the compiler
        end = _scan_to_matching_brace(body, i)
        if re.match(r"\s*else\b", mask[end:]):
            continue
        # group neighbouring boolean conjuncts, one nesting level per `let`
        groups = []
        for p in parts:
            if re.match(r"let\b", p) or not groups or re.match(r"let\b", groups[-1]):
                groups.append(p)
            else:
                groups[-1] = groups[-1] + " && " + p
        head = " ".join("if %s {" % g for g in groups)
        body = body[:st] + head + body[i + 1:end] + "}" * (len(groups) - 1) + body[end:]
        n_done += 1
    return body, n_done


def extract_fn(src_text, anchor, scope=None):
    lines = src_text.split("\n")
    lo, hi = 0, len(lines)
    if scope:
        # restrict the anchor search to the brace block opened on the (unique) line `scope`, e.g. `impl SrtpSession {`
        sh = [k for k, l in enumerate(lines) if l.strip() == scope]
        if len(sh) != 1:
            raise LostAnchor("scope %r matches %d lines" % (scope, len(sh)))
        soff = sum(len(l) + 1 for l in lines[: sh[0]])
        send = _scan_to_matching_brace(src_text, src_text.index("{", soff))
        lo, hi = sh[0], src_text.count("\n", 0, send) + 1
    hits = [k for k, l in enumerate(lines) if lo <= k < hi and (l.strip() == anchor
            or re.match(r"(pub(\([a-z]+\))? )?" + re.escape(anchor), l.strip()))]
    if len(hits) != 1:
        raise LostAnchor("anchor %r matches %d lines" % (anchor, len(hits)))
    off = sum(len(l) + 1 for l in lines[: hits[0]])
    # signature ends at first '{' at paren depth 0
    i, depth = off, 0
    while True:
        c = src_text[i]
        if c in "([":
            depth += 1
        elif c in ")]":
            depth -= 1
        elif c == "{" and depth == 0:
            break
        i += 1
    end = _scan_to_matching_brace(src_text, i)
    sig = src_text[off:i]
    body = src_text[i:end]
    return sig, body, (off, end)


def extract_item(src_text, anchor):
    """const / struct / enum starting on the unique line whose stripped text starts with `anchor`."""
    lines = src_text.split("\n")
    hits = [k for k, l in enumerate(lines) if l.strip().startswith(anchor)]
    if len(hits) != 1:
        raise LostAnchor("item anchor %r matches %d lines" % (anchor, len(hits)))
    off = sum(len(l) + 1 for l in lines[: hits[0]])
    i = off
    while src_text[i] not in "{;":
        i += 1
    end = i + 1 if src_text[i] == ";" else _scan_to_matching_brace(src_text, i)
    body = src_text[off:end].split("\n")
    kept = [l for l in body if not re.match(r"\s*#\[.*\]\s*$", l)]
    return "\n".join(kept), (off, end), len(body) - len(kept)


def parse_unit(path):
    unit = {"name": None, "source": None, "items": []}
    gsub, gsub_re = [], []
    cur_fn = None
    mode = None  # ('text', list) target to append lines
    buf = None
    def _lines(pth):
        for raw in open(pth):
            if raw.startswith("#include "):
                yield from _lines(os.path.join(os.path.dirname(pth), raw.split(None, 1)[1].strip()))
            else:
                yield raw
    for raw in _lines(path):
        line = raw.rstrip("\n")
        if line.startswith("#") and not line.startswith("#["):
            d, _, arg = line[1:].partition(" ")
            arg = arg.strip()
            buf = None
            if d == "unit":
                unit["name"] = arg
            elif d == "source":
                unit["source"] = arg
            elif d in ("gsubst", "gsubst-re"):
                old, _, new = arg.partition(" => ")
                (gsub if d == "gsubst" else gsub_re).append((old.strip(), new.strip()))
            elif d == "count":
                # `#count <path>::<regex> == N`: census of call sites; a mismatch makes the unit undecided (LostAnchor)
                m = re.match(r"(\S+\.rs)::(.*) == (\d+)$", arg)
                unit["items"].append(("count", {"source": m.group(1), "regex": m.group(2), "n": int(m.group(3))}))
            elif d == "text":
                buf = []
                unit["items"].append(("text", buf))
            elif d == "item":
                src, anchor = unit["source"], arg
                m = re.match(r"(\S+\.rs)::(.*)$", arg)
                if m:
                    src, anchor = m.group(1), m.group(2)
                unit["items"].append(("item", {"anchor": anchor, "source": src, "subst": list(gsub), "subst_re": list(gsub_re)}))
            elif d == "impl":
                unit["items"].append(("impl", arg))
            elif d == "endimpl":
                unit["items"].append(("endimpl", None))
            elif d == "fn":
                cur_fn = {"anchor": arg, "ret": None, "clauses": [], "hints": [], "loops": [], "source": unit["source"],
                          "subst": list(gsub), "subst_re": list(gsub_re)}
                unit["items"].append(("fn", cur_fn))
            elif d == "attr":
                cur_fn.setdefault("attrs", []).append(arg)
            elif d == "deasync":
                cur_fn["deasync"] = True
            elif d == "cut-after":
                cur_fn["cut_after"] = arg
            elif d == "cut-before":
                cur_fn["cut_before"] = arg
            elif d == "tail":
                cur_fn["tail"] = arg
            elif d == "scope":
                cur_fn["scope"] = arg
            elif d == "block":
                # a run of statements inside a long function, put under contract as a function of its own:
                # `#block <signature written in the unit>` + `#in <fn anchor>` + `#from <line>` + `#to <line>`
                cur_fn = {"anchor": None, "block_sig": arg, "ret": None, "clauses": [], "hints": [], "loops": [],
                          "source": unit["source"], "subst": list(gsub), "subst_re": list(gsub_re)}
                unit["items"].append(("fn", cur_fn))
            elif d == "in":
                cur_fn["anchor"] = arg
            elif d == "from-prefix":
                # `#from-prefix <text>`: the block starts at the only body line that BEGINS with <text> (for a statement
                # whose remainder may be re-flowed or edited: the edit is then read, not lost)
                cur_fn["block_from"] = arg
                cur_fn["block_from_nth"] = None
                cur_fn["block_from_prefix"] = True
            elif d == "from" or d.startswith("from@"):
                # `#from@N <line>`: the N-th body line with that text (default: the only one)
                cur_fn["block_from"] = arg
                cur_fn["block_from_nth"] = int(d.split("@")[1]) if "@" in d else None
            elif d == "to":
                cur_fn["block_to"] = arg
            elif d == "until":
                cur_fn["block_until"] = arg
            elif d == "ret":
                cur_fn["ret"] = arg
            elif d == "clauses":
                buf = cur_fn["clauses"]
            elif d.split("@")[0] in ("hint-before", "hint-after"):
                # `#hint-before@N` / `#hint-after@N`: the N-th body line with that text (default: the only one)
                buf = []
                cur_fn["hints"].append((arg, buf, d.split("@")[0] == "hint-after", int(d.split("@")[1]) if "@" in d else None))
            elif d == "tail-block":
                buf = []
                cur_fn["tail_lines"] = buf
            elif d == "drop-macro":
                cur_fn.setdefault("drop", []).extend(arg.split())
            elif d == "subst":
                old, _, new = arg.partition(" => ")
                cur_fn.setdefault("subst", []).append((old.strip(), new.strip()))
            elif d == "subst-re":
                old, _, new = arg.partition(" => ")
                cur_fn.setdefault("subst_re", []).append((old.strip(), new.strip()))
            elif d == "loop-invariant" or d.startswith("loop-invariant@"):
                # `#loop-invariant@N <line>`: the N-th loop (1-based) with that head line, for functions that
                # have several loops with the same head
                buf = []
                cur_fn["loops"].append((arg, buf, int(d.split("@")[1]) if "@" in d else None))
            elif d == "endfn":
                cur_fn = None
            elif d == "":
                pass  # comment line "# ..."
            else:
                raise ValueError("unknown directive %s in %s" % (d, path))
        else:
            if buf is not None:
                buf.append(line)
    return unit


def assemble(unit, repo):
    out = ["// GENERATED on every run by /verif/lib/vextract.py from %s — do not edit" % unit["source"],
           "#![allow(unused, dead_code)]", "use vstd::prelude::*;", "verus! {", ""]
    report = []
    srcs = {}
    for kind, val in unit["items"]:
        if kind == "text":
            out.extend(val)
        elif kind == "item":
            sp = os.path.join(repo, val["source"])
            if sp not in srcs:
                if not os.path.exists(sp):
                    raise LostAnchor("source %s is gone" % val["source"])
                srcs[sp] = open(sp).read()
            txt, rng, nattr = extract_item(srcs[sp], val["anchor"])
            isub = []
            for old, new in val.get("subst", []):
                n = txt.count(old)
                if n:
                    txt = txt.replace(old, new)
                    isub.append({"from": old, "to": new, "occurrences": n})
            for old, new in val.get("subst_re", []):
                txt, n = re.subn(old, new, txt)
                if n:
                    isub.append({"from_regex": old, "to": new, "occurrences": n})
            out.append(txt)
            report.append({"item": val["anchor"], "source": val["source"], "byte_range": list(rng),
                           "sha256_real_text": hashlib.sha256(srcs[sp][rng[0]:rng[1]].encode()).hexdigest(),
                           "dropped_attribute_lines": nattr, "substitutions": isub, "lost_ghost_anchors": []})
        elif kind == "count":
            sp = os.path.join(repo, val["source"])
            if not os.path.exists(sp):
                raise LostAnchor("source %s is gone" % val["source"])
            txt = open(sp).read()
            cut = txt.find("#[cfg(test)]\nmod tests")          # the census is over non-test code
            n = len(re.findall(val["regex"], txt if cut < 0 else txt[:cut]))
            if n != val["n"]:
                raise LostAnchor("census: %d occurrences of /%s/ in %s, the unit covers %d — a call site was added or removed"
                                 % (n, val["regex"], val["source"], val["n"]))
            report.append({"census": val["regex"], "source": val["source"], "occurrences": n, "lost_ghost_anchors": []})
        elif kind == "impl":
            out.append("impl %s {" % val)
        elif kind == "endimpl":
            out.append("}")
        elif kind == "fn":
            sp = os.path.join(repo, val["source"])
            if sp not in srcs:
                if not os.path.exists(sp):
                    raise LostAnchor("source %s is gone" % val["source"])
                srcs[sp] = open(sp).read()
            sig, body, (a, b) = extract_fn(srcs[sp], val["anchor"], val.get("scope"))
            block = None
            if val.get("block_sig"):
                bl = body.split("\n")
                if val.get("block_from_prefix"):
                    f = [k for k, l in enumerate(bl) if l.strip().startswith(val["block_from"])]
                else:
                    f = [k for k, l in enumerate(bl) if l.strip() == val["block_from"]]
                nth = val.get("block_from_nth")
                if (nth is None and len(f) != 1) or (nth is not None and len(f) < nth):
                    raise LostAnchor("block start %r matches %d lines in %s" % (val["block_from"], len(f), val["anchor"]))
                if nth is not None:
                    f = [f[nth - 1]]
                if val.get("block_until"):
                    t = [k - 1 for k, l in enumerate(bl) if k > f[0] and l.strip() == val["block_until"]]
                    if not t:
                        raise LostAnchor("block end %r not found after its start in %s" % (val["block_until"], val["anchor"]))
                elif val.get("block_to"):
                    t = [k for k, l in enumerate(bl) if k >= f[0] and l.strip() == val["block_to"]]
                    if not t:
                        raise LostAnchor("block end %r not found after its start in %s" % (val["block_to"], val["anchor"]))
                else:
                    # no #to: the block ends with the brace block opened by the first `{`-line at or after #from
                    o = [k for k, l in enumerate(bl) if k >= f[0] and l.rstrip().endswith("{")]
                    if not o:
                        raise LostAnchor("no brace block after %r in %s" % (val["block_from"], val["anchor"]))
                    rest = "\n".join(bl[o[0]:])
                    end = _scan_to_matching_brace(rest, rest.index("{"))
                    t = [o[0] + rest[:end].count("\n")]
                off = a + len(sig) + sum(len(l) + 1 for l in bl[: f[0]])
                text = "\n".join(bl[f[0]: t[0] + 1])
                block = {"in": val["anchor"], "from": val["block_from"], "to": val.get("block_to") or ("(up to) " + val["block_until"] if val.get("block_until") else "(closing brace of the first block)"), "lines": t[0] - f[0] + 1}
                a, b = off, off + len(text)
                # a block that ends inside nested braces (e.g. at a `break;`) is closed like a cut function
                stripped_b = _mask(text)
                bdepth = max(0, stripped_b.count("{") - stripped_b.count("}"))
                sig, body = val["block_sig"] + " ", "{\n" + text + "\n" + "}" * bdepth + "\n" + "\n".join([val.get("tail", "")] + val.get("tail_lines", [])) + "\n}"
            real_sha = hashlib.sha256(srcs[sp][a:b].encode()).hexdigest()
            # (1) signature rewrite
            sig_s = sig.rstrip()
            clauses = "\n".join(val["clauses"])
            m = re.search(r"->\s*(.+)$", sig_s, re.S)
            if m and val["ret"]:
                sig_v = sig_s[: m.start()] + "-> (%s: %s)" % (val["ret"], m.group(1).strip())
            else:
                sig_v = sig_s
            shape = {}
            if val.get("deasync"):
                sig_v, n1 = re.subn(r"\basync fn\b", "fn", sig_v)
                body, n2 = re.subn(r"\s*\.await\b", "", body)
                shape["deasync"] = {"async_keywords_dropped": n1, "awaits_dropped": n2}
            if val.get("cut_after") or val.get("cut_before"):
                bl = body.split("\n")
                cut = val.get("cut_after") or val.get("cut_before")
                hits = [k for k, l in enumerate(bl) if l.strip() == cut]
                if len(hits) != 1:
                    raise LostAnchor("cut anchor %r matches %d lines in %s" % (cut, len(hits), val["anchor"]))
                if val.get("cut_before"):
                    hits[0] -= 1
                kept = "\n".join(bl[: hits[0] + 1])
                stripped = _mask(kept)
                depth = stripped.count("{") - stripped.count("}")
                shape["cut"] = {"after" if val.get("cut_after") else "before": cut, "body_lines_kept": hits[0] + 1, "body_lines_dropped": len(bl) - hits[0] - 1}
                # `#tail <expr>`: the value a cut function returns where the dropped remainder would have continued
                body = kept + "\n" + "}" * (depth - 1) + "\n" + "\n".join([val.get("tail", "")] + val.get("tail_lines", [])) + "\n}"
            # (0) drop logging-macro statements (Verus does not expand tracing macros); each dropped
            #     statement is recorded in the extraction report
            dropped = []
            for mac in val.get("drop", []):
                while True:
                    m = re.search(r"^[ \t]*%s!\(" % re.escape(mac), body, re.M)
                    if not m:
                        break
                    i, depth = m.end() - 1, 0
                    while True:
                        c = body[i]
                        if c == '"':
                            i += 1
                            while body[i] != '"':
                                i += 2 if body[i] == "\\" else 1
                        elif c == "(":
                            depth += 1
                        elif c == ")":
                            depth -= 1
                            if depth == 0:
                                break
                        i += 1
                    j = i + 1
                    if body[j:j + 1] == ";":
                        j += 1
                    dropped.append(" ".join(body[m.start():j].split()))
                    body = body[:m.start()] + body[j:]
            substituted = []
            for old, new in val.get("subst", []):
                n = body.count(old) + sig_v.count(old)
                if n:
                    body = body.replace(old, new)
                    sig_v = sig_v.replace(old, new)
                substituted.append({"from": old, "to": new, "occurrences": n})
            for old, new in val.get("subst_re", []):
                body, n = re.subn(old, new, body)
                sig_v, n2 = re.subn(old, new, sig_v)
                substituted.append({"from_regex": old, "to": new, "occurrences": n + n2})
            # (1c) let-chains without an else branch, still present after the unit's own substitutions, are nested
            body, n_chain = _desugar_let_chains(body)
            if n_chain:
                shape["let_chains_nested"] = n_chain
            # (2) hints and loop invariants
            body_lines = body.split("\n")
            lost = []
            hint_ins = []
            for anchor, text, after, nth in val["hints"]:
                hits = [k for k, l in enumerate(body_lines) if l.strip() == anchor]
                if (nth is None and len(hits) != 1) or (nth is not None and len(hits) < nth):
                    # the body was restructured: try without this ghost hint; if the proof then fails the
                    # obligation is reported UNDECIDED (never as a violation), see check:classify_verus
                    lost.append("hint %s %r in %s" % ("after" if after else "before", anchor, val["anchor"]))
                    continue
                k = hits[0] if nth is None else hits[nth - 1]
                hint_ins.append((k + 1 if after else k, text))
            # insert bottom-up so the recorded line numbers stay valid
            for k, text in sorted(hint_ins, key=lambda x: -x[0]):
                body_lines[k:k] = text
            pending = []
            relocated = []
            # every loop head of the body, in order (fallback when a quoted head no longer matches, e.g. because
            # the loop guard itself was edited): if the unit annotates exactly as many loops as the body has,
            # the k-th annotation goes to the k-th loop
            heads = [k for k, l in enumerate(body_lines)
                     if re.match(r"\s*(?:'\w+:\s*)?(while\b|for\b|loop\s*\{)", l) and l.rstrip().endswith("{")]
            for idx, (anchor, text, nth) in enumerate(val["loops"]):
                hits = [k for k, l in enumerate(body_lines) if l.strip() == anchor]
                if (nth is None and len(hits) != 1) or (nth is not None and len(hits) < nth):
                    if len(heads) == len(val["loops"]):
                        pending.append((heads[idx], text))
                        relocated.append("loop invariant written for %r placed on loop #%d %r in %s"
                                         % (anchor, idx + 1, body_lines[heads[idx]].strip(), val["anchor"]))
                        continue
                    lost.append("loop invariant at %r in %s" % (anchor, val["anchor"]))
                    continue
                pending.append((hits[0] if nth is None else hits[nth - 1], text))
            # insert bottom-up so earlier line numbers stay valid
            for k, text in sorted(pending, key=lambda x: -x[0]):
                l = body_lines[k]
                if not l.rstrip().endswith("{"):
                    raise LostAnchor("loop head %r does not end with '{'" % anchor)
                body_lines[k] = l.rstrip()[:-1].rstrip()
                body_lines[k + 1:k + 1] = text + ["{"]
            # sha of the body with inserted ghost lines removed again == sha of real body (self-check)
            out.extend(val.get("attrs", []))
            out.append(sig_v)
            if clauses.strip():
                out.append(clauses)
            out.append("\n".join(body_lines))
            out.append("")
            if block:
                shape["block"] = block
            report.append({"function": val["anchor"] if not block else val["block_sig"], "source": val["source"],
                           "byte_range": [a, b], "sha256_real_text": real_sha,
                           "ghost_hints": len(val["hints"]), "loop_invariants": len(val["loops"]),
                           "dropped_macro_statements": dropped, "substitutions": substituted,
                           "shape_changes": shape, "relocated_ghost_anchors": relocated,
                           "lost_ghost_anchors": lost})
    out += ["", "} // verus!", "fn main() {}", ""]
    return "\n".join(out), report
