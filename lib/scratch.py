"""Scratch-copy plumbing: copy /repo's working tree, inject contracts and harness modules.

What is injected (nothing else in the copy differs from /repo's working tree):
  * for every `@@ <file> :: <signature line>` entry of kani/contracts.txt, the attribute
    lines that follow it are inserted directly above the (unique) source line whose
    stripped text equals <signature line>, wrapped as `#[cfg_attr(kani, ...)]`;
  * for every kani/<path with __ for />.rs harness module, the text
        #[cfg(kani)] mod verif_kani { use super::*; <module text> }
    is appended to src/<path>.rs;
  * kani/_prelude.rs is appended to src/lib.rs as `#[cfg(kani)] pub(crate) mod verif_prelude`, and the line
    `#![cfg_attr(kani, feature(allocator_api))]` is put in front of src/lib.rs (harness helpers name Vec's allocator parameter).
  * a sibling .cargo/config.toml with [net] offline and the [patch.crates-io] substitutes.
No existing line of the copy is changed or removed.
"""
import os, re, shutil, subprocess, hashlib

VERIF = os.path.dirname(os.path.dirname(os.path.abspath(__file__)))
REPO = os.environ.get("RUSTRTC_REPO", "/repo")


class LostAnchor(Exception):
    pass


def parse_contracts(path):
    """-> list of (file, anchor, [attr lines])"""
    out = []
    cur = None
    if not os.path.exists(path):
        return out
    for raw in open(path):
        line = raw.rstrip("\n")
        if line.startswith("@@ "):
            f, _, anchor = line[3:].partition(" :: ")
            cur = (f.strip(), anchor.strip(), [])
            out.append(cur)
        elif line.strip() == "" or line.lstrip().startswith("//"):
            continue
        elif cur is not None:
            cur[2].append(line.strip())
    return out


def harness_modules():
    d = os.path.join(VERIF, "kani")
    mods = {}
    for fn in sorted(os.listdir(d)):
        if fn.endswith(".rs") and not fn.startswith("_"):
            rel = "src/" + fn[:-3].replace("__", "/") + ".rs"
            mods[rel] = os.path.join(d, fn)
    return mods


def make_scratch(root, patches=("anyhow", "hmac", "aes-gcm", "aes", "ctr"), with_contracts=True, only_files=None):
    """root: fresh directory. Returns path of the copied crate (root/repo)."""
    os.makedirs(root, exist_ok=True)
    dst = os.path.join(root, "repo")
    subprocess.run(["rsync", "-a", "--delete", "--exclude", "/target", "--exclude", "/.git",
                    REPO + "/", dst + "/"], check=True)
    os.makedirs(os.path.join(root, ".cargo"), exist_ok=True)
    cfg = "[net]\noffline = true\n"
    if patches:
        cfg += "\n[patch.crates-io]\n"
        for p in patches:
            cfg += '%s = { path = "%s/shims/%s" }\n' % (p, VERIF, p)
    open(os.path.join(root, ".cargo", "config.toml"), "w").write(cfg)

    injected = {"contracts": [], "modules": []}
    # 1. in-place contracts
    if with_contracts:
        by_file = {}
        for f, anchor, attrs in parse_contracts(os.path.join(VERIF, "kani", "contracts.txt")):
            if only_files is not None and f not in only_files:
                continue
            by_file.setdefault(f, []).append((anchor, attrs))
        for f, items in by_file.items():
            p = os.path.join(dst, f)
            if not os.path.exists(p):
                raise LostAnchor("file %s is gone" % f)
            lines = open(p).read().split("\n")
            for anchor, attrs in items:
                # anchors are matched as a prefix of the stripped line (e.g. `fn estimate_roc(`), so a
                # changed parameter list or return type does not lose the anchor
                hits = [i for i, l in enumerate(lines) if l.strip().startswith(anchor)
                        or re.match(r"(pub(\([a-z]+\))? )?" + re.escape(anchor), l.strip())]
                if len(hits) != 1:
                    raise LostAnchor("%s: anchor %r matches %d lines" % (f, anchor, len(hits)))
                i = hits[0]
                indent = lines[i][: len(lines[i]) - len(lines[i].lstrip())]
                ins = [indent + "#[cfg_attr(kani, %s)]" % a[2:-1] if a.startswith("#[") and a.endswith("]")
                       else indent + a for a in attrs]
                lines[i:i] = ins
                injected["contracts"].append({"file": f, "anchor": anchor, "attrs": attrs})
            open(p, "w").write("\n".join(lines))
    # 2. harness modules
    for rel, src in harness_modules().items():
        if only_files is not None and rel not in only_files:
            continue
        p = os.path.join(dst, rel)
        if not os.path.exists(p):
            raise LostAnchor("file %s is gone" % rel)
        body = open(src).read()
        with open(p, "a") as fh:
            fh.write("\n#[cfg(kani)]\n#[allow(unused, dead_code, clippy::all)]\nmod verif_kani {\n    use super::*;\n"
                     "    #[allow(unused_imports)] use crate::verif_prelude::*;\n" + body + "\n}\n")
        injected["modules"].append({"file": rel, "module": os.path.relpath(src, VERIF),
                                    "sha256": hashlib.sha256(body.encode()).hexdigest()})
    pre = os.path.join(VERIF, "kani", "_prelude.rs")
    libp = os.path.join(dst, "src", "lib.rs")
    # crate-level feature gate for harness helpers that name the allocator type parameter (cfg(kani) only)
    libtxt = open(libp).read()
    open(libp, "w").write("#![cfg_attr(kani, feature(allocator_api))]\n" + libtxt)
    with open(libp, "a") as fh:
        fh.write("\n#[cfg(kani)]\n#[allow(unused, dead_code)]\npub(crate) mod verif_prelude {\n" + open(pre).read() + "\n}\n")
    return dst, injected
