#!/usr/bin/env python3
"""summarise a raw cargo-kani output file: kres.py <file>"""
import sys, importlib.machinery, importlib.util, os
sys.path.insert(0, os.path.dirname(os.path.dirname(os.path.abspath(__file__))))
p = os.path.join(os.path.dirname(os.path.dirname(os.path.abspath(__file__))), "check")
loader = importlib.machinery.SourceFileLoader("check_mod", p)
spec = importlib.util.spec_from_loader("check_mod", loader)
m = importlib.util.module_from_spec(spec); loader.exec_module(m)
res = m.parse_kani(open(sys.argv[1], errors="replace").read())
for h, r in sorted(res.items()):
    print("%-10s %7s %6s chk  cov %s/%s  %s  %s" % (r["status"], "%.1f" % r["time_s"] if r["time_s"] else "-", r["checks_total"],
          r["covers_sat"], r["covers_total"], h.split("::")[-1], "; ".join(r["failed_checks"])[:200]))
