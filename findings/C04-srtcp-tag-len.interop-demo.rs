//! Demonstration for the C04 finding (place under tests/ of the crate):
//! an SRTCP packet protected by rustrtc under AES_CM_128_HMAC_SHA1_32 must be accepted by an
//! independent SRTP implementation (webrtc-srtp, re-exported by the dev-dependency `webrtc`) holding the same keys.
use rustrtc::{SrtpContext, SrtpDirection, SrtpKeyingMaterial, SrtpProfile};

#[test]
fn srtcp_under_sha1_32_is_accepted_by_webrtc_srtp() {
    let key: Vec<u8> = (0u8..16).collect();
    let salt: Vec<u8> = (100u8..114).collect();
    // a minimal receiver report: V=2, RC=0, PT=201, length=1, SSRC
    let rr: Vec<u8> = vec![0x80, 201, 0, 1, 0xde, 0xad, 0xbe, 0xef];
    let mut tx = SrtpContext::new(0xdead_beef, SrtpProfile::Aes128Sha1_32,
        SrtpKeyingMaterial::new(key.clone(), salt.clone()), SrtpDirection::Sender).unwrap();
    let mut protected = rr.clone();
    tx.protect_rtcp(&mut protected).unwrap();

    let mut theirs = webrtc::srtp::context::Context::new(&key, &salt,
        webrtc::srtp::protection_profile::ProtectionProfile::Aes128CmHmacSha1_32, None, None).unwrap();
    let out = theirs.decrypt_rtcp(&protected);
    assert!(out.is_ok(), "webrtc-srtp rejected rustrtc's SRTCP packet ({} bytes): {:?}", protected.len(), out.err());
    assert_eq!(&out.unwrap()[..], &rr[..]);
}
